"""Per-property workload / oracle configuration (DESIGN.md section 5).  Pure data."""

KINDS = ["fifo", "lfu", "lfuda", "lru", "mru", "rr", "tlru", "utlru", "ut_map", "ut_set"]
CAPK = ["fifo", "lfu", "lfuda", "lru", "mru", "rr", "tlru", "utlru"]
TTLK = ["tlru", "utlru", "ut_map", "ut_set"]
BULKK = ["fifo", "lru", "mru", "ut_map", "ut_set"]  # single-candidate containers: a 300-element range over 400-key states stays cheap
# (tlru / utlru are left out: every element may or may not reap expired residents, and following that over hundreds of
#  elements with 400-key states costs seconds per operation for nothing the small-universe profiles do not reach)

_EV_NAMES = [
    "EVICT", "EVICT_EXPIRED", "EVICT_MIXED", "EVICT_NONTRIV", "EVICT_AFTER_GAP", "LFU_MULTI", "AGING_PARTIAL", "AGING_IN_INSERT",
    "AGING_ANY", "HIT_RECYCLED", "HIT_MOVED_DL", "REJECT", "UPD_ON_U_TRUE", "UPD_ON_U_FALSE", "OVERWRITE_EXP", "CLEAN_MIXED",
    "CLEAN_SOME", "RANGE_DUP", "RANGE_OVERCAP", "RANGE_EXPIRED", "ERASE_OK", "EXPIRE", "REAP", "CLEAR_NONEMPTY", "UPDATE", "USE",
    "PEEK_HIT", "MISS", "ERASE_ABSENT", "INSERT_NEW", "EVICT_CHAIN3", "EVICT_VICTIM_UPD", "MRU_NEXT", "AGING_STRICT", "ORDER_NEQ_DL",
    "CNT3", "MISS_AT_DL", "HIT_BEFORE_DL", "HIT_MOVED_BEFORE", "EXPIRED_LOOKUP",
]
EV = {n: i for i, n in enumerate(_EV_NAMES)}
TWIN_BIT = 62


def bits(*names):
    m = 0
    for n in names:
        m |= 1 << EV[n]
    return m


BASE_ASSUME = [
    "the executable specification (harness/model.hpp) is a faithful reading of the property statements",
    "std::chrono::steady_clock::now() and std::random_device are replaced at link time by harness-controlled versions; the library is otherwise unmodified (hooks compiled in but idle)",
    "quantifiers are sampled: bounded histories, universes <= 200 keys, capacities <= 64, three key/value type sets",
]

SEQ_ALL_PROFILES = ["tiny", "churn", "recycle", "shape", "ranges", "ttl-edge", "noop"]

PROPS = {
    "C01": {
        "engine": "seq",
        "rule": "case = random configuration + generated op list executed on the real container under the specification-following monitor; "
                "every lookup result and every audit row is compared with the latest successful write of that key; a case is non-trivial "
                "if a lookup hit a key that had been (re)inserted after absence at least 3 times (recycled slot); distinct = distinct op-list hash",
        "trigger_counters": ["HIT_RECYCLED", "lookups_checked", "audit_rows"],
        "assumptions": BASE_ASSUME,
        "runs": [
            {"mode": "model", "kinds": KINDS, "profiles": ["tiny", "churn", "recycle", "recycle", "shape", "ranges", "ttl-edge", "loadfactor"],
             "cases_quick": 1600, "cases_thorough": 40000, "trigger_any": bits("HIT_RECYCLED"), "typesets": 7},
            {"mode": "model", "kinds": BULKK, "profiles": ["bulk"], "salt": "b",
             "cases_quick": 120, "cases_thorough": 6000, "trigger_any": bits("HIT_RECYCLED", "EVICT", "EXPIRE"), "typesets": 7},
            # thorough only: long histories on one instance (every slot recycled hundreds of times)
            {"mode": "model", "kinds": KINDS, "profiles": ["recycle", "churn", "shape"], "salt": "long", "thorough_only": True, "nops": (800, 2500),
             "cases_quick": 0, "cases_thorough": 250, "trigger_any": bits("HIT_RECYCLED"), "typesets": 7},
        ],
    },
    "C02": {
        "engine": "seq",
        "rule": "size(), empty() and capacity() are probed after every operation of every generated case and compared with the specification "
                "(exact for non-TTL caches; live <= size <= live + unreaped-expired for tlru/utlru; exact right after a purging call for ut_map/ut_set); "
                "a case is non-trivial if size changed through eviction, erase, reaping of expired entries, clear() or overwrite of an expired entry",
        "trigger_counters": ["EVICT", "ERASE_OK", "REAP", "CLEAR_NONEMPTY", "OVERWRITE_EXP", "probes"],
        "assumptions": BASE_ASSUME,
        "runs": [
            {"mode": "model", "kinds": KINDS, "profiles": ["tiny", "churn", "recycle", "shape", "ranges", "ttl-edge", "clear", "loadfactor"],
             "cases_quick": 1600, "cases_thorough": 40000, "trigger_any": bits("EVICT", "ERASE_OK", "REAP", "CLEAR_NONEMPTY", "OVERWRITE_EXP"), "typesets": 7},
            {"mode": "model", "kinds": BULKK, "profiles": ["bulk"], "salt": "b",
             "cases_quick": 120, "cases_thorough": 6000, "trigger_any": bits("EVICT", "ERASE_OK", "REAP"), "typesets": 7},
            # thorough only: long histories on one instance (every slot recycled hundreds of times)
            {"mode": "model", "kinds": KINDS, "profiles": ["recycle", "churn", "shape"], "salt": "long", "thorough_only": True, "nops": (800, 2500),
             "cases_quick": 0, "cases_thorough": 250, "trigger_any": bits("EVICT", "ERASE_OK"), "typesets": 7},
        ],
    },
    "C03": {
        "engine": "seq",
        "rule": "after every operation an audit looks up every key of the universe without side effects; a live key that disappears is attributed "
                "to the operation in between only if it was sighted right before it (sparser cases are re-run densely); full inserts must lose exactly "
                "one resident and leave size() at capacity; non-trivial = a full insert after an erase freed a slot, or a chain of >= 3 consecutive evictions",
        "trigger_counters": ["EVICT_AFTER_GAP", "EVICT_CHAIN3", "full_inserts", "audit_rows"],
        "assumptions": BASE_ASSUME,
        "runs": [
            {"mode": "model", "kinds": KINDS, "profiles": ["tiny", "churn", "recycle", "recycle", "shape", "noop", "ttl-edge"], "noinsr": True,
             "cases_quick": 1600, "cases_thorough": 40000, "trigger_any": bits("EVICT_AFTER_GAP", "EVICT_CHAIN3"), "typesets": 7},
            {"mode": "model", "kinds": KINDS, "profiles": ["ranges"], "salt": "r",
             "cases_quick": 100, "cases_thorough": 8000, "trigger_any": bits("EVICT_AFTER_GAP", "EVICT_CHAIN3", "RANGE_OVERCAP"), "typesets": 7},
            # thorough only: long histories on one instance (every slot recycled hundreds of times)
            {"mode": "model", "kinds": KINDS, "profiles": ["recycle", "churn", "shape"], "salt": "long", "thorough_only": True, "nops": (800, 2500),
             "cases_quick": 0, "cases_thorough": 250, "trigger_any": bits("EVICT_AFTER_GAP", "EVICT_CHAIN3"), "typesets": 7, "noinsr": True},
        ],
    },
    "C04": {
        "engine": "seq",
        "rule": "virtual clock; every lookup and audit row of the four TTL containers is checked against deadline = instant of the latest successful "
                "write + TTL in force for that write (inclusive); the generator jumps to live deadlines -1 ns / +0 / +1 ns and between deadlines; "
                "non-trivial = a lookup issued at exactly the deadline of an entry, or addressed to an expired-but-unreaped entry",
        "trigger_counters": ["MISS_AT_DL", "EXPIRED_LOOKUP", "ORDER_NEQ_DL", "lookups_checked"],
        "assumptions": BASE_ASSUME,
        "runs": [
            {"mode": "model", "kinds": TTLK, "profiles": ["ttl-edge", "ttl-edge", "ttl-edge", "tiny", "churn", "ranges"],
             "cases_quick": 3600, "cases_thorough": 80000, "trigger_any": bits("MISS_AT_DL", "EXPIRED_LOOKUP"), "typesets": 7},
            # batch expiry: hundreds of entries written by one range call reach their deadline together
            {"mode": "model", "kinds": ["ut_map", "ut_set"], "profiles": ["bulk"], "salt": "b",
             "cases_quick": 600, "cases_thorough": 32000, "trigger_any": bits("MISS_AT_DL", "EXPIRED_LOOKUP", "EXPIRE"), "typesets": 7},
        ],
    },
    "C05": {
        "engine": "seq",
        "rule": "as C04, judging misses: a key not erased / cleared / evicted must be found at every instant before its deadline, the deadline restarting "
                "at each successful write with the TTL of that write; utlru update_ttl must not touch earlier entries; non-trivial = a lookup hit at exactly "
                "deadline - 1 ns, or a hit on an entry whose deadline had been moved by an update",
        "trigger_counters": ["HIT_BEFORE_DL", "HIT_MOVED_BEFORE", "HIT_MOVED_DL"],
        "assumptions": BASE_ASSUME,
        "runs": [
            {"mode": "model", "kinds": TTLK, "profiles": ["ttl-edge", "ttl-edge", "ttl-edge", "tiny", "churn"], "noinsr": True,
             "cases_quick": 3600, "cases_thorough": 80000, "trigger_any": bits("HIT_BEFORE_DL", "HIT_MOVED_DL"), "typesets": 7},
            # writes through the range forms (per-element TTLs for tlru) must restart the TTL just the same
            {"mode": "model", "kinds": TTLK, "profiles": ["ttl-edge", "ranges", "ranges"], "salt": "r",
             "cases_quick": 2000, "cases_thorough": 40000, "trigger_any": bits("HIT_BEFORE_DL", "HIT_MOVED_DL"), "typesets": 7},
        ],
    },
    "C09": {
        "engine": "seq",
        "rule": "every insert / insert_range result is compared with the allow-mode rule evaluated on the specification state (key absent / live / "
                "erased / evicted / expired-unreaped / at the exact expiry instant); rejected calls must leave value and deadline untouched (seen by the audit "
                "and later deadline probes); non-trivial = a rejected insert, or an update-only call on an expired-unreaped key",
        "trigger_counters": ["REJECT", "UPD_ON_U_TRUE", "UPD_ON_U_FALSE", "OVERWRITE_EXP"],
        "assumptions": BASE_ASSUME,
        "runs": [
            {"mode": "model", "kinds": KINDS, "profiles": ["tiny", "churn", "ttl-edge", "ranges", "noop", "shape"],
             "cases_quick": 1600, "cases_thorough": 40000, "trigger_any": bits("REJECT", "UPD_ON_U_TRUE", "UPD_ON_U_FALSE"), "typesets": 7},
        ],
    },
    "C10": {
        "engine": "seq",
        "rule": "on every full insert of a new key (single form, audit before and after) the one missing resident must be the least recently used "
                "(tlru / utlru: when no resident has expired); non-trivial = an eviction whose victim is neither the oldest- nor the newest-inserted resident",
        "trigger_counters": ["EVICT_NONTRIV", "EVICT_VICTIM_UPD", "full_inserts"],
        "assumptions": BASE_ASSUME,
        "runs": [
            {"mode": "model", "kinds": ["lru", "tlru", "utlru"], "profiles": ["shape", "shape", "recycle", "churn", "tiny", "noop"], "noinsr": True,
             "cases_quick": 4800, "cases_thorough": 120000, "trigger_any": bits("EVICT_NONTRIV"), "typesets": 7},
            # uses made through the range forms (insert_range updates, range lookups) count like their single forms
            {"mode": "model", "kinds": ["lru", "tlru", "utlru"], "profiles": ["ranges", "ranges", "shape"], "salt": "r",
             "cases_quick": 2400, "cases_thorough": 60000, "trigger_any": bits("EVICT_NONTRIV", "EVICT_VICTIM_UPD"), "typesets": 7},
            # thorough only: long histories on one instance (every slot recycled hundreds of times)
            {"mode": "model", "kinds": ["lru", "tlru", "utlru"], "profiles": ["recycle", "churn", "shape"], "salt": "long", "thorough_only": True, "nops": (800, 2500),
             "cases_quick": 0, "cases_thorough": 250, "trigger_any": bits("EVICT_NONTRIV"), "typesets": 7, "noinsr": True},
        ],
    },
    "C11": {
        "engine": "seq",
        "rule": "use counts of every resident are read with find_with_use_count(peek) after every op and compared with the specification; on a full "
                "insert the victim's count must be minimal; non-trivial = an eviction with >= 2 distinct counts present and the minimum not held by the newest key",
        "trigger_counters": ["LFU_MULTI", "CNT3", "full_inserts"],
        "assumptions": BASE_ASSUME,
        "runs": [
            {"mode": "model", "kinds": ["lfu", "lfuda"], "profiles": ["shape", "shape", "recycle", "churn", "tiny", "noop"], "noinsr": True,
             "cases_quick": 6000, "cases_thorough": 120000, "trigger_any": bits("LFU_MULTI"), "typesets": 7},
            {"mode": "model", "kinds": ["lfu", "lfuda"], "profiles": ["ranges"], "salt": "r",
             "cases_quick": 1200, "cases_thorough": 20000, "trigger_any": bits("LFU_MULTI", "CNT3"), "typesets": 7},
            # thorough only: long histories on one instance (every slot recycled hundreds of times)
            {"mode": "model", "kinds": ["lfu", "lfuda"], "profiles": ["recycle", "churn", "shape"], "salt": "long", "thorough_only": True, "nops": (800, 2500),
             "cases_quick": 0, "cases_thorough": 250, "trigger_any": bits("LFU_MULTI"), "typesets": 7, "noinsr": True},
        ],
    },
    "C12": {
        "engine": "seq",
        "rule": "on every full insert the missing resident must be the earliest-inserted one; non-trivial = an eviction after an erase + refill, or "
                "whose victim had been updated / looked up after its insertion",
        "trigger_counters": ["EVICT_AFTER_GAP", "EVICT_VICTIM_UPD", "full_inserts"],
        "assumptions": BASE_ASSUME,
        "runs": [
            {"mode": "model", "kinds": ["fifo"], "profiles": ["recycle", "recycle", "shape", "churn", "tiny"], "noinsr": True,
             "cases_quick": 12000, "cases_thorough": 300000, "trigger_any": bits("EVICT_AFTER_GAP", "EVICT_VICTIM_UPD"), "typesets": 7},
            # updates and insertions through the range / iterator-pair overloads must keep (resp. set) the same order
            {"mode": "model", "kinds": ["fifo"], "profiles": ["ranges", "ranges", "shape", "recycle"], "salt": "r",
             "cases_quick": 4000, "cases_thorough": 100000, "trigger_any": bits("EVICT_AFTER_GAP", "EVICT_VICTIM_UPD"), "typesets": 7},
            # thorough only: long histories on one instance (every slot recycled hundreds of times)
            {"mode": "model", "kinds": ["fifo"], "profiles": ["recycle", "churn", "shape"], "salt": "long", "thorough_only": True, "nops": (800, 2500),
             "cases_quick": 0, "cases_thorough": 250, "trigger_any": bits("EVICT_AFTER_GAP", "EVICT_VICTIM_UPD"), "typesets": 7, "noinsr": True},
        ],
    },
    "C13": {
        "engine": "seq",
        "rule": "on every full insert the missing resident must be the most recently used one; non-trivial = the victim's newest use was an update or "
                "a lookup, or the victim was the key inserted by the previous eviction (chain)",
        "trigger_counters": ["EVICT_VICTIM_UPD", "MRU_NEXT", "EVICT_AFTER_GAP", "full_inserts"],
        "assumptions": BASE_ASSUME,
        "runs": [
            {"mode": "model", "kinds": ["mru"], "profiles": ["shape", "shape", "recycle", "churn", "tiny", "noop"], "noinsr": True,
             "cases_quick": 12000, "cases_thorough": 300000, "trigger_any": bits("EVICT_VICTIM_UPD", "MRU_NEXT"), "typesets": 7},
            {"mode": "model", "kinds": ["mru"], "profiles": ["ranges", "ranges", "shape"], "salt": "r",
             "cases_quick": 4000, "cases_thorough": 100000, "trigger_any": bits("EVICT_VICTIM_UPD", "MRU_NEXT"), "typesets": 7},
            # thorough only: long histories on one instance (every slot recycled hundreds of times)
            {"mode": "model", "kinds": ["mru"], "profiles": ["recycle", "churn", "shape"], "salt": "long", "thorough_only": True, "nops": (800, 2500),
             "cases_quick": 0, "cases_thorough": 250, "trigger_any": bits("EVICT_VICTIM_UPD", "MRU_NEXT"), "typesets": 7, "noinsr": True},
        ],
    },
    "C14": {
        "engine": "seq",
        "rule": "virtual clock; dynamically_age()'s return value, every resident's count after each aging point (floor(count*ratio), exact for dyadic "
                "ratios) and the victim after aging are compared with the specification; the generator jumps to touch+tick -1 ns / +0 / +1 ns; "
                "non-trivial = an aging point where some but not all residents are due, or one inside a full insert",
        "trigger_counters": ["AGING_PARTIAL", "AGING_IN_INSERT", "AGING_STRICT", "AGING_ANY"],
        "assumptions": BASE_ASSUME,
        "runs": [
            {"mode": "model", "kinds": ["lfuda"], "profiles": ["aging", "aging", "aging", "shape", "churn", "tiny"], "noinsr": True,
             "cases_quick": 12000, "cases_thorough": 300000, "trigger_any": bits("AGING_PARTIAL", "AGING_IN_INSERT"), "typesets": 7},
            {"mode": "model", "kinds": ["lfuda"], "profiles": ["aging", "ranges"], "salt": "r",
             "cases_quick": 2000, "cases_thorough": 40000, "trigger_any": bits("AGING_PARTIAL", "AGING_IN_INSERT"), "typesets": 7},
        ],
    },
    "C15": {
        "engine": "seq",
        "rule": "per eviction: exactly one prior resident leaves, the new key is present, size stays at capacity; statistically (long runs, capacities "
                "2/3/5/8, injected random_device seed varied per case): every insertion-age rank is chosen at least once and none always over >= 200*c "
                "evictions, no resident survives more than 60*c consecutive evictions (a uniform chooser fails with probability < 1e-15); non-trivial = a case with >= 200*c evictions",
        "trigger_counters": ["rr_evictions", "EVICT", "EVICT_AFTER_GAP"],
        "assumptions": BASE_ASSUME + ["spread is a statistical statement with stated thresholds, not a proof of uniformity"],
        "runs": [
            {"mode": "model", "kinds": ["rr"], "profiles": ["churn", "recycle", "tiny", "shape"], "noinsr": True,
             "cases_quick": 8000, "cases_thorough": 100000, "trigger_any": bits("EVICT_AFTER_GAP", "EVICT_CHAIN3"), "typesets": 7},
            {"mode": "model", "kinds": ["rr"], "profiles": ["spread"], "noinsr": True, "salt": "s", "nops": (1800, 2600), "nops_thorough": (1800, 6000),
             "cases_quick": 160, "cases_thorough": 5000, "trigger_any": bits("EVICT_CHAIN3"), "typesets": 1},
            # the same long runs with every insert issued through insert_range (one element per call)
            {"mode": "model", "kinds": ["rr"], "profiles": ["spread"], "salt": "sr", "nops": (1800, 2600), "nops_thorough": (1800, 6000),
             "cases_quick": 120, "cases_thorough": 4000, "trigger_any": bits("EVICT_CHAIN3"), "typesets": 1},
        ],
    },
    "C16": {
        "engine": "seq",
        "rule": "virtual clock; audits skip expired-but-unreaped keys so that they stay resident; on every full insert of a new key made while "
                "size() - live > 0 no live key may disappear; non-trivial = such an insert with 0 < expired residents < capacity",
        "trigger_counters": ["EVICT_MIXED", "EVICT_EXPIRED", "ORDER_NEQ_DL"],
        "assumptions": BASE_ASSUME,
        "runs": [
            {"mode": "model", "kinds": ["tlru", "utlru"], "profiles": ["ttl-edge", "ttl-edge", "churn", "tiny"], "noinsr": True,
             "cases_quick": 10000, "cases_thorough": 200000, "trigger_any": bits("EVICT_MIXED"), "typesets": 7},
        ],
    },
    "C17": {
        "engine": "seq",
        "rule": "clean_expired_values() must return size() - live as pinned by the probe before the call and leave size() == live; ut_map / ut_set must "
                "show size() == live right after every insert / erase / lookup; non-trivial = a clean with 0 < expired residents < size",
        "trigger_counters": ["CLEAN_MIXED", "CLEAN_SOME", "REAP"],
        "assumptions": BASE_ASSUME,
        "runs": [
            {"mode": "model", "kinds": TTLK, "profiles": ["ttl-edge", "ttl-edge", "churn", "tiny", "ranges"],
             "cases_quick": 4800, "cases_thorough": 100000, "trigger_any": bits("CLEAN_MIXED"), "typesets": 7},
            {"mode": "model", "kinds": ["ut_map", "ut_set"], "profiles": ["bulk"], "salt": "b",
             "cases_quick": 600, "cases_thorough": 32000, "trigger_any": bits("CLEAN_MIXED", "CLEAN_SOME", "REAP"), "typesets": 7},
        ],
    },
    "C18": {
        "engine": "seq",
        "rule": "differential twins: instance A executes each range operation, instance B the same elements as single calls in iteration order at the same "
                "virtual instant; returned counts, per-position lookup results, and every later result, probe and audit row are compared; non-trivial = a case "
                "with a range op (duplicates / more new keys than capacity / expired keys) followed by >= 10 compared operations",
        "trigger_counters": ["RANGE_DUP", "RANGE_OVERCAP", "RANGE_EXPIRED", "twin_compared"],
        "assumptions": BASE_ASSUME + ["twins are two instances of the same build; rr twins share the injected random_device seed"],
        "runs": [
            {"mode": "twin-range", "kinds": KINDS, "profiles": ["ranges", "ranges", "tiny", "ttl-edge", "shape"],
             "cases_quick": 1600, "cases_thorough": 40000, "trigger_any": 1 << TWIN_BIT, "typesets": 7},
        ],
    },
    "C19": {
        "engine": "seq",
        "rule": "differential twins: A executes history H with peeks, misses, rejected inserts and absent-key erases spliced in (chosen by the specification, "
                "confirmed by A's result), B executes H alone; every shared result, probe and audit row is compared (TTL containers: minus size()/empty(), clean's "
                "count and update-only / erase on expired-unreaped keys); non-trivial = splices followed by >= 10 compared operations",
        "trigger_counters": ["twin_spliced", "twin_compared", "EVICT"],
        "assumptions": BASE_ASSUME + ["twins are two instances of the same build; rr twins share the injected random_device seed"],
        "runs": [
            {"mode": "twin-noop", "kinds": KINDS, "profiles": ["tiny", "churn", "shape", "ttl-edge", "aging", "recycle"],
             "cases_quick": 1600, "cases_thorough": 40000, "trigger_any": 1 << TWIN_BIT, "typesets": 7},
        ],
    },
    "C20": {
        "engine": "seq",
        "rule": "differential twins: A runs H1 then clear(); B is constructed at that instant with A's capacity and currently configured TTL; H2 runs on both and "
                "every result, probe (size included) and audit row is compared; after clear() size() must be 0 and no key found; non-trivial = a clear() of a "
                "non-empty container followed by >= 10 compared operations",
        "trigger_counters": ["CLEAR_NONEMPTY", "twin_compared"],
        "assumptions": BASE_ASSUME,
        "runs": [
            {"mode": "twin-clear", "kinds": ["utlru", "ut_map"], "profiles": ["clear", "ttl-edge", "churn", "tiny", "ranges"],
             "cases_quick": 10000, "cases_thorough": 200000, "trigger_all": bits("CLEAR_NONEMPTY") | (1 << TWIN_BIT), "typesets": 7},
        ],
    },
    "C08": {
        "engine": "seq",
        "rule": "the sequential drivers run under AddressSanitizer + UndefinedBehaviorSanitizer + libstdc++ checked iterators (and, thorough, clang's "
                "sanitizers and valgrind memcheck) with three key/value type sets including an instance-registering heap-owning value type; any report, fatal "
                "signal, leaked / doubly destroyed / moved-from-read value is a violation; non-trivial = a case that recycled slots (>= 3 re-insertions of a key) "
                "and destroyed a non-empty container",
        "trigger_counters": ["HIT_RECYCLED", "destroyed_nonempty"],
        "assumptions": BASE_ASSUME + ["red-zone sanitizers miss intra-object and far out-of-bounds accesses; checked iterators cover most of that gap here"],
        "runs": [
            {"mode": "model", "kinds": KINDS, "profiles": ["tiny", "churn", "recycle", "recycle", "shape", "ranges", "ttl-edge", "loadfactor", "clear", "noop"],
             "cases_quick": 400, "cases_thorough": 8000, "trigger_any": bits("HIT_RECYCLED"), "typesets": 7,
             "flavours_quick": ["san", "asan"], "flavours_thorough": ["san", "asan", "clang-san", "memcheck"]},
            # rehash pressure: load factors from 0.01 to 1000 with capacities up to 64 (checked iterators flag any use of an
            # iterator stored across a rehash)
            {"mode": "model", "kinds": CAPK, "profiles": ["loadfactor"], "salt": "lf",
             "cases_quick": 300, "cases_thorough": 6000, "trigger_any": bits("HIT_RECYCLED", "EVICT"), "typesets": 7,
             "flavours_quick": ["san"], "flavours_thorough": ["san", "asan", "clang-san"]},
            {"mode": "model", "kinds": KINDS, "profiles": ["recycle", "churn"], "salt": "long", "nops": (1500, 3000), "nops_thorough": (5000, 20000),
             "cases_quick": 16, "cases_thorough": 200, "trigger_any": bits("HIT_RECYCLED"), "typesets": 7,
             "flavours_quick": ["san"], "flavours_thorough": ["san", "asan"]},
            {"mode": "twin-range", "kinds": KINDS, "profiles": ["ranges", "recycle"], "salt": "tw",
             "cases_quick": 60, "cases_thorough": 2000, "trigger_any": bits("HIT_RECYCLED"), "typesets": 7,
             "flavours_quick": ["san"], "flavours_thorough": ["san", "asan"]},
            {"mode": "model", "kinds": BULKK, "profiles": ["bulk"], "salt": "b",
             "cases_quick": 60, "cases_thorough": 1500, "trigger_any": bits("HIT_RECYCLED", "EVICT", "EXPIRE"), "typesets": 7,
             "flavours_quick": ["san"], "flavours_thorough": ["san", "asan"]},
        ],
    },
    "C06": {"engine": "conc"},
    "C07": {"engine": "race"},
}
