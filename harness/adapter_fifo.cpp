// Adapter translation unit for fifo (the only kind of TU, with the other adapters, that includes the library).
#include "adapter.hpp"
namespace vh
{
ICache* make_cache_fifo(const Cfg& cfg) { return make_cache_kind<FIFO>(cfg); }
} // namespace vh
