// Sequential driver: runs generated (or replayed) operation lists against the real containers
// under the online monitor.  Modes:
//   model       one instance followed by the executable specification
//   twin-range  A executes range ops, B the same elements as single calls (C18)
//   twin-noop   A executes H with no-effect calls spliced in, B executes H alone (C19)
//   twin-clear  A: H1; clear(); B: freshly constructed at that instant; then H2 on both (C20)
//   replay      re-executes a recorded op list and prints the step table
#include "gen.hpp"
#include "iface.hpp"
#include "monitor.hpp"

#include <fcntl.h>
#include <signal.h>
#include <unistd.h>

#include <cinttypes>
#include <cstdio>
#include <fstream>
#include <iostream>
#include <map>
#include <memory>
#include <set>
#include <unordered_set>

namespace vclock
{
int64_t now();
void    set(int64_t);
void    advance(int64_t);
void    selftest();
} // namespace vclock
namespace vrandom
{
void     seed(uint64_t);
uint64_t draws();
} // namespace vrandom
namespace vh
{
uint64_t tracked_live();
std::string tracked_error();
void        tracked_reset();
} // namespace vh

using namespace vh;

static const int64_t T0 = 1000000000LL;

struct Options
{
    std::string mode{"model"};
    int         kind{LRU};
    std::vector<int> profiles;
    uint64_t    cases{100};
    uint64_t    seed{1};
    int         worker{0}, nworkers{1};
    uint64_t    start{0};       // first global case index to run (restart after a crashed case)
    bool        noinsr{false};  // no range inserts (single-op attribution only)
    int         typesets{1};
    int         ts{2};
    int         nops_lo{40}, nops_hi{160};
    std::string journal;
    std::string out;
    std::string hashes;
    std::string violfile;       // violations are appended here as they are found (they survive a later crash of this worker)
    std::string replay;
    uint64_t    trigger_any{0}; // a case is non-trivial if it saw any of these event bits
    uint64_t    trigger_all{0}; // ... and all of these
    int         samples{2};
    int         max_viol{10};
    std::string tag;            // property id (seed derivation only)
    bool        verbose{false};
};

struct StepRec
{
    Op          op;
    Res         res;
    Probe       pr;
    int64_t     now;
};

struct CaseResult
{
    bool                     violated{false};
    Violation                viol;
    uint64_t                 ev{0};
    uint64_t                 hash{0};
    bool                     inconclusive{false};
    std::vector<std::string> lines; // executed ops with results (text)
    std::string              cfg_text;
};

static int         g_case_timeout_s = 60; // wall-clock watchdog per case: a call that never returns ends the worker (exit 98)
static unsigned long g_alarm_last_seq = ~0ul;
static void          on_case_alarm(int)
{
    // Only a single library call that is still in flight after a whole watchdog period is a hang; a slow harness
    // (large candidate sets, a loaded machine, valgrind) keeps making calls and merely re-arms the alarm.
    if (vh::g_in_library_call && vh::g_library_call_seq == g_alarm_last_seq)
    {
        static const char msg[] = "HANG: one library call has been running for a whole watchdog period (it does not return)\n";
        if (write(2, msg, sizeof msg - 1) < 0) {}
        _exit(98);
    }
    g_alarm_last_seq = vh::g_in_library_call ? vh::g_library_call_seq : ~0ul;
    alarm((unsigned)g_case_timeout_s);
}
static int         g_journal_fd = -1;
static uint64_t    g_case_index = 0;
static void        journal_begin(const std::string& cfg_text, const std::string& mode, uint64_t case_seed)
{
    if (g_journal_fd < 0)
        return;
    if (ftruncate(g_journal_fd, 0) != 0) {}
    lseek(g_journal_fd, 0, SEEK_SET);
    std::string s = "# mode=" + mode + " case_seed=" + std::to_string(case_seed) + " case_index=" + std::to_string(g_case_index) + "\n" + cfg_text + "\n";
    if (write(g_journal_fd, s.data(), s.size()) < 0) {}
}
static void journal_line(const std::string& l)
{
    if (g_journal_fd < 0)
        return;
    std::string s = l + "\n";
    if (write(g_journal_fd, s.data(), s.size()) < 0) {}
}

// the side-effect-free lookup of key k for this container kind
static Op audit_op(int kind, int k)
{
    Op op;
    op.k = k;
    if (kind_has_counts(kind))
    {
        op.kind = FUC;
        op.peek = true;
    }
    else
    {
        op.kind = FND;
        op.peek = kind_has_peek(kind);
    }
    return op;
}

static void run_audit(ICache* c, const Cfg& cfg, const State* skip_state, bool skip_u, std::vector<AuditRow>& rows)
{
    rows.assign((size_t)cfg.universe, AuditRow{});
    Res r;
    for (int k = 0; k < cfg.universe; ++k)
    {
        if (skip_u && skip_state && skip_state->k[(size_t)k].st == EXPU)
            continue;
        Op op = audit_op(cfg.kind, k);
        guarded_apply(c, op, r);
        rows[(size_t)k].looked = true;
        rows[(size_t)k].val    = r.vals.empty() ? std::nullopt : r.vals[0];
        rows[(size_t)k].cnt    = r.cnt;
    }
}

static std::string audit_to_text(const std::vector<AuditRow>& rows)
{
    std::string s = "{";
    for (size_t k = 0; k < rows.size(); ++k)
    {
        if (!rows[k].looked)
            continue;
        if (s.size() > 1)
            s += ' ';
        s += std::to_string(k) + ":" + (rows[k].val ? std::to_string(*rows[k].val) : std::string("-"));
        if (rows[k].cnt)
            s += "#" + std::to_string(*rows[k].cnt);
    }
    return s + "}";
}

static uint64_t hash_ops(uint64_t h, const std::string& line) { return mix(h, hash_str(line)); }

// After an audit on a TTL container the residency of expired entries may have changed: let the follower
// re-pin r from a fresh size() probe.
static bool monitor_post_audit(Monitor& mon, const Probe& pr2, int64_t now, const std::vector<AuditRow>& rows, Violation& v)
{
    const Cfg& cfg = mon.cfg();
    if (!kind_is_ttl(cfg.kind))
        return true;
    std::vector<State> next;
    for (auto& s : mon.cands)
    {
        if (mon.model.utm())
        {
            State t = s;
            Model::clear_u(t);
            t.purged = true;
            if (pr2.size == (uint64_t)t.live())
                next.push_back(std::move(t));
        }
        else
        {
            bool audit_touched_u = false;
            for (size_t k = 0; k < rows.size() && k < s.k.size(); ++k)
                if (rows[k].looked && s.k[k].st == EXPU)
                    audit_touched_u = true;
            int rmax = s.r;
            int rmin = audit_touched_u ? 0 : s.r;
            for (int r = rmin; r <= rmax; ++r)
            {
                if (pr2.size != (uint64_t)(s.live() + r))
                    continue;
                State t = s;
                t.r     = r;
                if (r == 0)
                    Model::clear_u(t);
                next.push_back(std::move(t));
            }
        }
    }
    if (next.empty())
    {
        v.tags   = {mon.model.utm() ? "C02.utmap-live" : "C02.ttl-range"};
        v.detail = "size() = " + std::to_string(pr2.size) + " after an audit is not explained by the live count";
        if (mon.model.utm())
            v.tags.push_back("C17.implicit-purge");
        (void)now;
        return false;
    }
    mon.cands.swap(next);
    return true;
}

struct CaseResult;
static void write_case_json_fwd(std::ostream& os, const CaseResult& cr);

struct Runner
{
    Options   opt;
    Counters  ctr;
    std::vector<CaseResult> violations;
    std::vector<CaseResult> samples;
    std::unordered_set<uint64_t> nontrivial;
    uint64_t  cases_run{0}, cases_viol{0}, cases_inconclusive{0}, destroyed_nonempty{0};
    std::map<std::string, uint64_t> tag_counts;
    std::map<std::string, int>      kept_per_prop;
    std::map<std::string, uint64_t> profile_cases;
    uint64_t  rr_selftest_fail{0};

    // Executes one op on cache c at the current virtual time; clock ops move the clock.
    static void exec(ICache* c, const Op& op, Res& res)
    {
        res.clear();
        if (op.kind == ADV)
            vclock::advance(op.ttl);
        else if (op.kind == SET)
        {
            if (op.ttl > vclock::now())
                vclock::set(op.ttl);
        }
        else if (op.kind != NOPK)
            guarded_apply(c, op, res);
    }

    // ---- MODEL mode: one case -------------------------------------------------------------------
    CaseResult run_model_case(uint64_t case_seed, const CasePlan* fixed_plan, const std::vector<Op>* fixed_ops, bool print, const std::vector<char>* fixed_audit = nullptr)
    {
        CaseResult cr;
        Generator  gen(case_seed);
        CasePlan   plan;
        if (fixed_plan)
        {
            plan     = *fixed_plan;
            gen.plan = plan;
        }
        else
        {
            int profile = opt.profiles[gen.rng.below(opt.profiles.size())];
            plan        = gen.make_plan(opt.kind, profile, opt.typesets, opt.ts, opt.nops_lo, opt.nops_hi);
        }
        gen.noinsr     = opt.noinsr;
        const Cfg& cfg = plan.cfg;
        cr.cfg_text    = cfg_to_text(cfg) + " # profile=" + profile_names[plan.profile] + " audit=" + std::to_string(plan.audit_mode) +
                      " skipU=" + std::to_string(plan.audit_skip_u ? 1 : 0);
        ++profile_cases[profile_names[plan.profile]];
        vclock::set(T0);
        vrandom::seed(cfg.rseed);
        tracked_reset();
        journal_begin(cfg_to_text(cfg), "model", case_seed);
        std::unique_ptr<ICache> cache(make_cache(cfg));
        Monitor                 mon(cfg, &ctr);
        uint64_t                h = hash_str(cfg_to_text(cfg));
        Res                     res;
        Probe                   pr, pr2;
        std::vector<AuditRow>   rows;
        size_t                  nops = fixed_ops ? fixed_ops->size() : (size_t)plan.nops;
        std::vector<Op>         executed;
        if (print)
            std::printf("%s\n", cr.cfg_text.c_str());
        for (size_t i = 0; i < nops; ++i)
        {
            Op op = fixed_ops ? (*fixed_ops)[i] : gen.next(mon.model, mon.state(), vclock::now());
            executed.push_back(op);
            std::string line = op_to_text(op);
            journal_line(line);
            h = hash_ops(h, line);
            exec(cache.get(), op, res);
            int64_t now = vclock::now();
            cache->probe(pr);
            bool do_audit = plan.audit_mode == 2 || (plan.audit_mode == 1 && gen.rng.chance(1, 4)) || i + 1 == nops;
            if (fixed_ops && fixed_audit)
                do_audit = (*fixed_audit)[i] != 0;
            else if (fixed_ops)
                do_audit = plan.audit_mode == 2 || i + 1 == nops || (plan.audit_mode == 1 && (i % 4) == 3);
            // the audit must not disturb expired-but-unreaped entries unless the case says so: decide which
            // keys to skip from the follower's view *after* this op, i.e. run the monitor in two stages.
            Violation v;
            bool      ok = true, failed_at_audit = false;
            rows.clear();
            // stage 1: op + probes; stage 2 (if this step has an audit): audit against the committed candidates
            ok = mon.step(op, res, pr, nullptr, now, v);
            if (!ok)
            {
                // explain again with an on-demand audit: what do lookups actually find?
                journal_line("# audit");
                run_audit(cache.get(), cfg, &mon.state(), plan.audit_skip_u && kind_is_ttllru(cfg.kind), rows);
                Violation v2;
                mon.explain_with_audit(op, res, pr, rows, now, v2);
                if (!v2.tags.empty())
                    v = v2;
                line += "   audit=" + audit_to_text(rows);
            }
            else if (do_audit)
            {
                if (ok && !mon.inconclusive)
                {
                    bool skip = plan.audit_skip_u && kind_is_ttllru(cfg.kind);
                    journal_line("# audit");
                    run_audit(cache.get(), cfg, &mon.state(), skip, rows);
                    Op nop;
                    nop.kind = NOPK;
                    Res   nres;
                    Probe p2;
                    cache->probe(p2);
                    // audit rows are checked against the candidates; the explanation uses the op context
                    ok = audit_stage(mon, op, res, pr, rows, now, v);
                    if (!ok)
                        failed_at_audit = true;
                    if (ok)
                    {
                        ok = monitor_post_audit(mon, p2, now, rows, v);
                        if (!ok)
                            rows.clear(); // no resynchronisation from here: the audit itself changed the container
                    }
                    line += "   audit=" + audit_to_text(rows);
                }
            }
            cr.lines.push_back(line + "  -> " + res_to_text(op, res) + "  size=" + std::to_string(pr.size) + (kind_is_ttl(cfg.kind) || cfg.kind == LFUDA ? "  t=" + std::to_string(now - T0) : ""));
            if (print)
                std::printf("%4zu  %s%s\n", i, cr.lines.back().c_str(), ok ? "" : "   <== violation");
            if (!ok)
            {
                if (!cr.violated)
                {
                    cr.violated = true;
                    v.op_index  = (int)i;
                    cr.viol     = v;
                }
                else
                {
                    for (auto& t : v.tags)
                        if (std::find(cr.viol.tags.begin(), cr.viol.tags.end(), t) == cr.viol.tags.end())
                            cr.viol.tags.push_back(t);
                    cr.viol.detail += " || op " + std::to_string(i) + ": " + v.detail;
                }
                // carry on with the same case if the follower can adopt what the audit found (monitor.hpp)
                bool unattributed_only = true;
                for (auto& t : v.tags)
                    if (t.compare(0, 12, "UNATTRIBUTED") != 0)
                        unattributed_only = false;
                // the audit may itself have changed what size() reports (ut_map / ut_set purge on every lookup, an
                // audit that looks at expired entries reaps them): resynchronise to a probe taken after it
                Probe pnow;
                cache->probe(pnow);
                if (!unattributed_only && mon.resyncs < 4 && !rows.empty() && mon.try_resync(op, res, pnow, rows, now, failed_at_audit))
                {
                    cr.lines.back() += "   [violation recorded; follower resynchronised to the audit]";
                    continue;
                }
                break;
            }
            if (mon.inconclusive)
            {
                cr.inconclusive = true;
                break;
            }
        }
        if (!cr.violated && !cr.inconclusive)
        {
            Violation v;
            if (!mon.rr_spread_check(v))
            {
                cr.violated = true;
                v.op_index  = (int)nops;
                cr.viol     = v;
            }
        }
        // destruction: exactly-once (C08)
        Probe plast;
        cache->probe(plast);
        if (plast.size > 0)
            ++destroyed_nonempty;
        journal_line("# destroy");
        std::string derr = cache->destroy_check();
        cache.reset();
        if (derr.empty() && tracked_live() != 0)
            derr = "Tracked: " + std::to_string(tracked_live()) + " value object(s) never destroyed";
        if (derr.empty() && !tracked_error().empty())
            derr = "Tracked: " + tracked_error();
        if (!derr.empty())
        {
            // reported in addition to whatever behavioural clause the same defect tripped
            if (!cr.violated)
                cr.viol.op_index = (int)cr.lines.size();
            cr.violated = true;
            cr.viol.tags.push_back("C08.destroy");
            cr.viol.detail += (cr.viol.detail.empty() ? "" : " || ") + derr;
        }
        cr.ev   = mon.case_ev;
        cr.hash = h;
        if (cr.violated && !in_reattr && all_unattributed(cr))
            reattribute(cr, plan, executed);
        return cr;
    }

    static bool all_unattributed(const CaseResult& cr)
    {
        for (auto& t : cr.viol.tags)
            if (t.compare(0, 12, "UNATTRIBUTED") != 0)
                return false;
        return true;
    }
    static std::vector<Op> expand_ranges(const std::vector<Op>& ops, bool& had_range)
    {
        std::vector<Op> out;
        had_range = false;
        for (auto& op : ops)
        {
            if (!op_is_range(op.kind))
            {
                out.push_back(op);
                continue;
            }
            had_range = true;
            for (auto& it : op.items)
            {
                Op s;
                s.k = it.k;
                if (op_is_insert(op.kind))
                {
                    s.kind  = INS;
                    s.allow = op.allow;
                    s.v     = it.v;
                    s.ttl   = it.ttl;
                }
                else if (op_is_erase(op.kind))
                    s.kind = ERA;
                else
                {
                    s.kind = FND;
                    s.peek = op.peek;
                }
                out.push_back(s);
            }
        }
        return out;
    }
    // A mismatch the clauses could not pin on a property (sparse audits, range forms) is re-examined by
    // re-executing the same op list on a fresh instance with an audit after every op, first as recorded
    // and then with every range expanded into its single calls: the first attributable violation found
    // that way names the property.  If only the range form misbehaves, that is C18.
    bool in_reattr{false};
    void reattribute(CaseResult& cr, const CasePlan& plan, const std::vector<Op>& ops)
    {
        in_reattr          = true;
        Counters saved_ctr = ctr;
        auto     saved_pc  = profile_cases;
        uint64_t saved_dn  = destroyed_nonempty;
        int64_t  saved_now = vclock::now();
        CasePlan p2        = plan;
        p2.audit_mode      = 2;
        CaseResult r1      = run_model_case(1, &p2, &ops, false);
        bool       done    = false;
        if (r1.violated && !all_unattributed(r1))
        {
            cr.viol.tags = r1.viol.tags;
            cr.viol.detail += " [attributed by dense re-run at op " + std::to_string(r1.viol.op_index) + ": " + r1.viol.detail + "]";
            done = true;
        }
        if (!done)
        {
            bool            had_range = false;
            std::vector<Op> ops2      = expand_ranges(ops, had_range);
            if (had_range)
            {
                CaseResult r2 = run_model_case(1, &p2, &ops2, false);
                if (r2.violated && !all_unattributed(r2))
                {
                    cr.viol.tags = r2.viol.tags;
                    cr.viol.detail += " [attributed by dense re-run with ranges expanded into singles, op " + std::to_string(r2.viol.op_index) + ": " + r2.viol.detail + "]";
                }
                else if (!r2.violated && r1.violated)
                {
                    cr.viol.tags = {"C18.effect"};
                    // a count that differs from the number of single successes is also an untruthful count (C09 for inserts)
                    bool was_count = false, only_count = true;
                    for (auto& t : r1.viol.tags)
                    {
                        if (t == "UNATTRIBUTED.range-result")
                            was_count = true;
                        else
                            only_count = false;
                    }
                    if (was_count)
                    {
                        cr.viol.tags.push_back("C18.count");
                        // the range did what its singles do (the audit agreed) and only the reported count is off: for an
                        // insert range that is an untruthful count in C09's sense as well
                        if (only_count && r1.viol.op_index >= 0 && (size_t)r1.viol.op_index < ops.size() && op_is_insert(ops[(size_t)r1.viol.op_index].kind))
                            cr.viol.tags.push_back("C09.count");
                    }
                    cr.viol.detail += " [the same history with every range expanded into single calls conforms: the range form differs from its singles]";
                }
            }
        }
        ctr                = saved_ctr;
        profile_cases      = saved_pc;
        destroyed_nonempty = saved_dn;
        vclock::set(saved_now);
        in_reattr = false;
    }

    // audit rows checked against the committed candidate set
    static bool audit_stage(Monitor& mon, const Op& op, const Res& res, const Probe& pr, const std::vector<AuditRow>& rows, int64_t now, Violation& v)
    {
        // Re-run the step from the *previous* candidates is not possible (they are committed), so the
        // audit is checked as a filter over the current candidates, and explained with the op context.
        return mon.audit_filter(op, res, pr, rows, now, v);
    }

    void account(const CaseResult& cr)
    {
        ++cases_run;
        ++ctr.cases;
        if (cr.inconclusive)
            ++cases_inconclusive;
        bool nt = (opt.trigger_any == 0 || (cr.ev & opt.trigger_any) != 0) && ((cr.ev & opt.trigger_all) == opt.trigger_all);
        if (nt)
            nontrivial.insert(cr.hash);
        if (cr.violated)
        {
            ++cases_viol;
            for (auto& t : cr.viol.tags)
                ++tag_counts[t];
            // keep witnesses per property so that a frequent clause cannot crowd out a rare one
            bool keep = false;
            for (auto& t : cr.viol.tags)
            {
                std::string prop = t.substr(0, t.find('.'));
                if (kept_per_prop[prop] < 3)
                    keep = true;
            }
            if (keep && (int)violations.size() < opt.max_viol * 6)
            {
                for (auto& t : cr.viol.tags)
                    ++kept_per_prop[t.substr(0, t.find('.'))];
                if (!opt.violfile.empty())
                {
                    std::ofstream vf(opt.violfile, std::ios::app);
                    std::ostringstream vs;
                    write_case_json_fwd(vs, cr);
                    vf << vs.str() << "\n";
                }
                else
                    violations.push_back(cr);
            }
        }
        else if ((int)samples.size() < opt.samples && nt)
            samples.push_back(cr);
    }
};

// ---------------------------------------------------------------------------------------------
static std::string json_str(const std::string& s) { return "\"" + json_escape(s) + "\""; }

static void write_case_json(std::ostream& os, const CaseResult& cr, uint64_t case_seed_hint)
{
    os << "{\"cfg\":" << json_str(cr.cfg_text) << ",\"hash\":" << cr.hash << ",\"seed\":" << case_seed_hint << ",\"ops\":[";
    for (size_t i = 0; i < cr.lines.size(); ++i)
    {
        if (i)
            os << ',';
        os << json_str(cr.lines[i]);
    }
    os << "]";
    if (cr.violated)
    {
        os << ",\"tags\":[";
        for (size_t i = 0; i < cr.viol.tags.size(); ++i)
        {
            if (i)
                os << ',';
            os << json_str(cr.viol.tags[i]);
        }
        os << "],\"detail\":" << json_str(cr.viol.detail) << ",\"op_index\":" << cr.viol.op_index;
    }
    os << "}";
}

static void write_case_json_fwd(std::ostream& os, const CaseResult& cr) { write_case_json(os, cr, 0); }

#include "seq_twins.hpp"

int main(int argc, char** argv)
{
    Options opt;
    for (int i = 1; i < argc; ++i)
    {
        std::string a = argv[i];
        auto        nxt = [&]() -> std::string { return i + 1 < argc ? argv[++i] : ""; };
        if (a == "--mode")
            opt.mode = nxt();
        else if (a == "--kind")
            opt.kind = kind_from_name(nxt());
        else if (a == "--profiles")
        {
            std::string s = nxt(), tok;
            std::istringstream is(s);
            while (std::getline(is, tok, ','))
            {
                int p = profile_from_name(tok);
                if (p < 0)
                {
                    std::fprintf(stderr, "HARNESS-FAILURE: unknown profile %s\n", tok.c_str());
                    return 2;
                }
                opt.profiles.push_back(p);
            }
        }
        else if (a == "--cases")
            opt.cases = std::strtoull(nxt().c_str(), nullptr, 10);
        else if (a == "--seed")
            opt.seed = std::strtoull(nxt().c_str(), nullptr, 10);
        else if (a == "--worker")
            opt.worker = std::atoi(nxt().c_str());
        else if (a == "--nworkers")
            opt.nworkers = std::atoi(nxt().c_str());
        else if (a == "--start")
            opt.start = std::strtoull(nxt().c_str(), nullptr, 10);
        else if (a == "--noinsr")
            opt.noinsr = true;
        else if (a == "--case-timeout")
            g_case_timeout_s = std::atoi(nxt().c_str());
        else if (a == "--typesets")
            opt.typesets = std::atoi(nxt().c_str());
        else if (a == "--ts")
            opt.ts = std::atoi(nxt().c_str());
        else if (a == "--nops")
        {
            std::string s = nxt();
            auto        c = s.find(':');
            opt.nops_lo   = std::atoi(s.substr(0, c).c_str());
            opt.nops_hi   = c == std::string::npos ? opt.nops_lo : std::atoi(s.substr(c + 1).c_str());
        }
        else if (a == "--journal")
            opt.journal = nxt();
        else if (a == "--out")
            opt.out = nxt();
        else if (a == "--hashes")
            opt.hashes = nxt();
        else if (a == "--viol-file")
            opt.violfile = nxt();
        else if (a == "--replay")
            opt.replay = nxt();
        else if (a == "--trigger-any")
            opt.trigger_any = std::strtoull(nxt().c_str(), nullptr, 0);
        else if (a == "--trigger-all")
            opt.trigger_all = std::strtoull(nxt().c_str(), nullptr, 0);
        else if (a == "--samples")
            opt.samples = std::atoi(nxt().c_str());
        else if (a == "--max-viol")
            opt.max_viol = std::atoi(nxt().c_str());
        else if (a == "--tag")
            opt.tag = nxt();
        else if (a == "-v")
            opt.verbose = true;
        else
        {
            std::fprintf(stderr, "HARNESS-FAILURE: unknown argument %s\n", a.c_str());
            return 2;
        }
    }
    signal(SIGALRM, on_case_alarm);
    vclock::selftest();
    if (opt.kind < 0)
    {
        std::fprintf(stderr, "HARNESS-FAILURE: unknown container kind\n");
        return 2;
    }
    if (opt.profiles.empty())
        opt.profiles = {P_TINY, P_CHURN, P_RECYCLE, P_SHAPE, P_RANGES};
    if (!opt.journal.empty())
        g_journal_fd = open(opt.journal.c_str(), O_CREAT | O_WRONLY | O_TRUNC, 0644);

    Runner R;
    R.opt = opt;

    if (!opt.replay.empty())
    {
        alarm((unsigned)g_case_timeout_s); // the same in-flight-call watchdog applies to a replay
        return replay_main(R, opt.replay);
    }

    uint64_t base = mix(mix(opt.seed, hash_str(opt.tag)), hash_str(std::string(kind_names[opt.kind]) + "/" + opt.mode));
    for (uint64_t i = (uint64_t)opt.worker; i < opt.cases; i += (uint64_t)opt.nworkers)
    {
        if (i < opt.start)
            continue;
        g_case_index     = i;
        g_alarm_last_seq = ~0ul;
        alarm((unsigned)g_case_timeout_s);
        uint64_t   cs = mix(base, i);
        CaseResult cr;
        if (opt.mode == "model")
            cr = R.run_model_case(cs, nullptr, nullptr, false);
        else
            cr = run_twin_case(R, cs, opt.mode);
        alarm(0);
        R.account(cr);
        if (cr.violated && opt.verbose)
            std::fprintf(stderr, "violation in case %" PRIu64 " (%s): %s\n", i, cr.viol.tags.empty() ? "?" : cr.viol.tags[0].c_str(), cr.viol.detail.c_str());
    }

    // ---- report (one JSON object) ---------------------------------------------------------------
    std::ostringstream os;
    os << "{\"mode\":" << json_str(opt.mode) << ",\"kind\":" << json_str(kind_names[opt.kind]) << ",\"worker\":" << opt.worker
       << ",\"cases\":" << R.cases_run << ",\"cases_violated\":" << R.cases_viol << ",\"cases_inconclusive\":" << R.cases_inconclusive
       << ",\"nontrivial\":" << R.nontrivial.size() << ",\"ops\":" << R.ctr.ops << ",\"lookups_checked\":" << R.ctr.lookups_checked
       << ",\"audits\":" << R.ctr.audits << ",\"audit_rows\":" << R.ctr.audit_rows << ",\"probes\":" << R.ctr.probes
       << ",\"full_inserts\":" << R.ctr.full_inserts << ",\"cand_max\":" << R.ctr.cand_max << ",\"cand_multi_steps\":" << R.ctr.cand_multi_steps
       << ",\"rr_evictions\":" << R.ctr.rr_evictions << ",\"destroyed_nonempty\":" << R.destroyed_nonempty
       << ",\"twin_compared\":" << g_twin_compared << ",\"twin_spliced\":" << g_twin_spliced << ",\"rr_selftest_fail\":" << R.rr_selftest_fail;
    os << ",\"ev\":[";
    for (int i = 0; i < EV_NBITS; ++i)
        os << (i ? "," : "") << R.ctr.ev[i];
    os << "],\"profiles\":{";
    {
        bool f = true;
        for (auto& kv : R.profile_cases)
        {
            os << (f ? "" : ",") << json_str(kv.first) << ":" << kv.second;
            f = false;
        }
    }
    os << "},\"tags\":{";
    {
        bool f = true;
        for (auto& kv : R.tag_counts)
        {
            os << (f ? "" : ",") << json_str(kv.first) << ":" << kv.second;
            f = false;
        }
    }
    os << "},\"violations\":[";
    for (size_t i = 0; i < R.violations.size(); ++i)
    {
        if (i)
            os << ',';
        write_case_json(os, R.violations[i], 0);
    }
    os << "],\"samples\":[";
    for (size_t i = 0; i < R.samples.size(); ++i)
    {
        if (i)
            os << ',';
        write_case_json(os, R.samples[i], 0);
    }
    os << "]}\n";
    if (!opt.out.empty())
    {
        std::ofstream f(opt.out);
        f << os.str();
    }
    else
        std::cout << os.str();
    if (!opt.hashes.empty())
    {
        std::ofstream f(opt.hashes, std::ios::binary);
        for (uint64_t h : R.nontrivial)
            f.write((const char*)&h, sizeof h);
    }
    return 0;
}
