#include "iface.hpp"
#include "values.hpp"
namespace vh
{
volatile int           g_in_library_call  = 0;
volatile unsigned long g_library_call_seq = 0;

ICache* make_cache(const Cfg& cfg)
{
    switch (cfg.kind)
    {
        case FIFO: return make_cache_fifo(cfg);
        case LFU: return make_cache_lfu(cfg);
        case LFUDA: return make_cache_lfuda(cfg);
        case LRU: return make_cache_lru(cfg);
        case MRU: return make_cache_mru(cfg);
        case RR: return make_cache_rr(cfg);
        case TLRU: return make_cache_tlru(cfg);
        case UTLRU: return make_cache_utlru(cfg);
        case UTMAP: return make_cache_ut_map(cfg);
        case UTSET: return make_cache_ut_set(cfg);
        default: return nullptr;
    }
}
uint64_t tracked_live()
{
    auto&                       r = TrackedRegistry::get();
    std::lock_guard<std::mutex> g(r.m);
    return r.live.size();
}
std::string tracked_error()
{
    auto&                       r = TrackedRegistry::get();
    std::lock_guard<std::mutex> g(r.m);
    return r.first_error;
}
void tracked_set_copy_hook(void (*h)()) { Tracked::copy_hook().store(h); }
void tracked_reset()
{
    auto&                       r = TrackedRegistry::get();
    std::lock_guard<std::mutex> g(r.m);
    r.first_error.clear();
    r.live.clear();
}
} // namespace vh
