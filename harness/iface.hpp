// The client boundary: every driver talks to the real containers only through this interface,
// and every adapter behind it calls only public members of the library.
#pragma once
#include "common.hpp"

#include <string>

namespace vh
{
struct ICache
{
    virtual ~ICache() {}
    // Executes one abstract operation through the corresponding public call.  Safe to call from
    // several threads at once iff the container is (the adapter keeps no shared mutable state of
    // its own except, for typeset 2, a mutex-protected list of weak references).
    virtual void apply(const Op& op, Res& res) = 0;
    // size() / empty() / capacity() (capacity reported as 0 for ut_map / ut_set).
    virtual void probe(Probe& p) = 0;
    // Destroys the container and checks exactly-once destruction of the values handed to it.
    // Returns "" or a description of what went wrong.
    virtual std::string destroy_check() = 0;
};

ICache* make_cache(const Cfg& cfg);

// Progress markers for the hang watchdog of the sequential driver: a wall-clock alarm may only conclude
// "a library call did not return" if it finds the *same* call still in flight at two consecutive ticks.
extern volatile int           g_in_library_call;
extern volatile unsigned long g_library_call_seq;
inline void                   guarded_apply(ICache* c, const Op& op, Res& res)
{
    ++g_library_call_seq;
    g_in_library_call = 1;
    c->apply(op, res);
    g_in_library_call = 0;
}

// one factory per container kind, each defined in its own translation unit
ICache* make_cache_fifo(const Cfg&);
ICache* make_cache_lfu(const Cfg&);
ICache* make_cache_lfuda(const Cfg&);
ICache* make_cache_lru(const Cfg&);
ICache* make_cache_mru(const Cfg&);
ICache* make_cache_rr(const Cfg&);
ICache* make_cache_tlru(const Cfg&);
ICache* make_cache_utlru(const Cfg&);
ICache* make_cache_ut_map(const Cfg&);
ICache* make_cache_ut_set(const Cfg&);

} // namespace vh
