// Adapter translation unit for ut_set (the only kind of TU, with the other adapters, that includes the library).
#include "adapter.hpp"
namespace vh
{
ICache* make_cache_ut_set(const Cfg& cfg) { return make_cache_kind<UTSET>(cfg); }
} // namespace vh
