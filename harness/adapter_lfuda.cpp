// Adapter translation unit for lfuda (the only kind of TU, with the other adapters, that includes the library).
#include "adapter.hpp"
namespace vh
{
ICache* make_cache_lfuda(const Cfg& cfg) { return make_cache_kind<LFUDA>(cfg); }
} // namespace vh
