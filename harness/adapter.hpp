// Adapter: abstract Op -> public call on the real container.  Included by one TU per container
// kind (adapter_<kind>.cpp) which defines VH_KIND and the factory name.
#pragma once
#include <atomic>
#include <chrono>
#include <list>
#include <map>
#include <mutex>
#include <optional>
#include <random>
#include <tuple>
#include <vector>

#include "cappuccino/cappuccino.hpp"

#include "iface.hpp"
#include "values.hpp"

namespace vh
{
namespace cap = cappuccino;
using ms      = std::chrono::milliseconds;

template<int K, class KT, class VT, cap::thread_safe TS>
struct ContainerOf;
template<class KT, class VT, cap::thread_safe TS>
struct ContainerOf<FIFO, KT, VT, TS>
{
    using type = cap::fifo_cache<KT, VT, TS>;
};
template<class KT, class VT, cap::thread_safe TS>
struct ContainerOf<LFU, KT, VT, TS>
{
    using type = cap::lfu_cache<KT, VT, TS>;
};
template<class KT, class VT, cap::thread_safe TS>
struct ContainerOf<LFUDA, KT, VT, TS>
{
    using type = cap::lfuda_cache<KT, VT, TS>;
};
template<class KT, class VT, cap::thread_safe TS>
struct ContainerOf<LRU, KT, VT, TS>
{
    using type = cap::lru_cache<KT, VT, TS>;
};
template<class KT, class VT, cap::thread_safe TS>
struct ContainerOf<MRU, KT, VT, TS>
{
    using type = cap::mru_cache<KT, VT, TS>;
};
template<class KT, class VT, cap::thread_safe TS>
struct ContainerOf<RR, KT, VT, TS>
{
    using type = cap::rr_cache<KT, VT, TS>;
};
template<class KT, class VT, cap::thread_safe TS>
struct ContainerOf<TLRU, KT, VT, TS>
{
    using type = cap::tlru_cache<KT, VT, TS>;
};
template<class KT, class VT, cap::thread_safe TS>
struct ContainerOf<UTLRU, KT, VT, TS>
{
    using type = cap::utlru_cache<KT, VT, TS>;
};
template<class KT, class VT, cap::thread_safe TS>
struct ContainerOf<UTMAP, KT, VT, TS>
{
    using type = cap::ut_map<KT, VT, TS>;
};
template<class KT, class VT, cap::thread_safe TS>
struct ContainerOf<UTSET, KT, VT, TS>
{
    using type = cap::ut_set<KT, TS>;
};

[[noreturn]] inline void unsupported(int kind, int op)
{
    std::fprintf(stderr, "HARNESS-FAILURE: op %s not supported by %s\n", opk_names[op], kind_names[kind]);
    std::abort();
}

template<int K, class KT, class VT, cap::thread_safe TS>
class Adapter final : public ICache
{
    using C  = typename ContainerOf<K, KT, VT, TS>::type;
    using KM = KeyMap<KT>;
    using VM = ValMap<VT>;
    static constexpr bool kSharedVals = std::is_same<VT, std::shared_ptr<uint64_t>>::value;
    static constexpr bool kTracked    = std::is_same<VT, Tracked>::value;

public:
    explicit Adapter(const Cfg& cfg) : m_cfg(cfg)
    {
        if constexpr (K == LFUDA)
            m_c = new C((size_t)cfg.cap, ms(cfg.tick_ms), (float)cfg.ratio_q / 4.0f, cfg.mlf);
        else if constexpr (K == UTLRU)
            m_c = new C(ms(cfg.ttl_ms), (size_t)cfg.cap, cfg.mlf);
        else if constexpr (K == UTMAP || K == UTSET)
            m_c = new C(ms(cfg.ttl_ms));
        else
            m_c = new C((size_t)cfg.cap, cfg.mlf);
    }
    ~Adapter() override { delete m_c; }

    void probe(Probe& p) override
    {
        p.size  = m_c->size();
        p.empty = m_c->empty();
        if constexpr (K == UTMAP || K == UTSET)
            p.cap = 0;
        else
            p.cap = m_c->capacity();
    }

    std::string destroy_check() override
    {
        delete m_c;
        m_c = nullptr;
        if constexpr (kSharedVals)
        {
            std::lock_guard<std::mutex> g(m_weak_lock);
            size_t                      alive = 0;
            for (auto& w : m_weak)
                if (!w.expired())
                    ++alive;
            if (alive)
                return "shared_ptr payloads still referenced after the container was destroyed: " + std::to_string(alive);
        }
        if constexpr (kTracked)
        {
            auto&                       r = TrackedRegistry::get();
            std::lock_guard<std::mutex> g(r.m);
            if (!r.first_error.empty())
                return "Tracked: " + r.first_error;
        }
        return "";
    }

    void apply(const Op& op, Res& res) override
    {
        res.clear();
        const cap::allow a = (cap::allow)(uint64_t)op.allow;
        switch (op.kind)
        {
            case INS: {
                KT key = KM::make(op.k);
                if constexpr (K == TLRU)
                    res.b = m_c->insert(ms(op.ttl), key, mk(op.v), a);
                else if constexpr (K == UTSET)
                    res.b = m_c->insert(key, a);
                else
                    res.b = m_c->insert(key, mk(op.v), a);
                break;
            }
            case INSR:
            case INSI: {
                if (op.kind == INSI && K != FIFO)
                    unsupported(K, op.kind);
                const bool aslist = (op.v & 1) != 0;
                if constexpr (K == TLRU)
                {
                    if (aslist)
                    {
                        std::list<std::tuple<ms, KT, VT>> r;
                        for (auto& it : op.items)
                            r.emplace_back(ms(it.ttl), KM::make(it.k), mk(it.v));
                        res.n = m_c->insert_range(r, a);
                    }
                    else
                    {
                        std::vector<std::tuple<ms, KT, VT>> r;
                        for (auto& it : op.items)
                            r.emplace_back(ms(it.ttl), KM::make(it.k), mk(it.v));
                        res.n = m_c->insert_range(r, a);
                    }
                }
                else if constexpr (K == UTSET)
                {
                    if (aslist)
                    {
                        std::list<KT> r;
                        for (auto& it : op.items)
                            r.push_back(KM::make(it.k));
                        res.n = m_c->insert_range(r, a);
                    }
                    else
                    {
                        std::vector<KT> r;
                        for (auto& it : op.items)
                            r.push_back(KM::make(it.k));
                        res.n = m_c->insert_range(r, a);
                    }
                }
                else
                {
                    if (aslist)
                    {
                        std::list<std::pair<KT, VT>> r;
                        for (auto& it : op.items)
                            r.emplace_back(KM::make(it.k), mk(it.v));
                        if constexpr (K == FIFO)
                            res.n = (op.kind == INSI) ? m_c->insert(r.begin(), r.end(), a) : m_c->insert_range(r, a);
                        else
                            res.n = m_c->insert_range(r, a);
                    }
                    else
                    {
                        std::vector<std::pair<KT, VT>> r;
                        for (auto& it : op.items)
                            r.emplace_back(KM::make(it.k), mk(it.v));
                        if constexpr (K == FIFO)
                            res.n = (op.kind == INSI) ? m_c->insert(r.begin(), r.end(), a) : m_c->insert_range(r, a);
                        else
                            res.n = m_c->insert_range(r, a);
                    }
                }
                break;
            }
            case ERA: {
                KT key = KM::make(op.k);
                res.b  = m_c->erase(key);
                break;
            }
            case ERAR:
            case ERAI: {
                if (op.kind == ERAI && K != FIFO)
                    unsupported(K, op.kind);
                const bool aslist = (op.v & 1) != 0;
                if (aslist)
                {
                    std::list<KT> r;
                    for (auto& it : op.items)
                        r.push_back(KM::make(it.k));
                    if constexpr (K == FIFO)
                        res.n = (op.kind == ERAI) ? m_c->erase(r.begin(), r.end()) : m_c->erase_range(r);
                    else
                        res.n = m_c->erase_range(r);
                }
                else
                {
                    std::vector<KT> r;
                    for (auto& it : op.items)
                        r.push_back(KM::make(it.k));
                    if constexpr (K == FIFO)
                        res.n = (op.kind == ERAI) ? m_c->erase(r.begin(), r.end()) : m_c->erase_range(r);
                    else
                        res.n = m_c->erase_range(r);
                }
                break;
            }
            case FND: {
                KT key = KM::make(op.k);
                res.keys.push_back(op.k);
                if constexpr (K == UTSET)
                {
                    bool hit = m_c->find(key);
                    res.vals.push_back(hit ? std::optional<uint64_t>(SET_MEMBER) : std::nullopt);
                }
                else
                {
                    std::optional<VT> r;
                    if constexpr (K == LRU || K == MRU || K == TLRU || K == UTLRU)
                        r = m_c->find(key, op.peek ? cap::peek::yes : cap::peek::no);
                    else if constexpr (K == LFU || K == LFUDA)
                        r = m_c->find(key, op.peek);
                    else
                        r = m_c->find(key);
                    res.vals.push_back(r ? std::optional<uint64_t>(VM::back(*r)) : std::nullopt);
                }
                break;
            }
            case FUC: {
                if constexpr (K == LFU || K == LFUDA)
                {
                    KT key = KM::make(op.k);
                    res.keys.push_back(op.k);
                    auto r = m_c->find_with_use_count(key, op.peek);
                    if (r)
                    {
                        res.vals.push_back(VM::back(r->first));
                        res.cnt = (uint64_t)r->second;
                    }
                    else
                        res.vals.push_back(std::nullopt);
                }
                else
                    unsupported(K, op.kind);
                break;
            }
            case FNDR:
            case FNDI: {
                if (op.kind == FNDI && K != FIFO)
                    unsupported(K, op.kind);
                const bool aslist = (op.v & 1) != 0;
                if (aslist)
                {
                    std::list<KT> r;
                    for (auto& it : op.items)
                        r.push_back(KM::make(it.k));
                    do_find_range(op, r, res);
                }
                else
                {
                    std::vector<KT> r;
                    for (auto& it : op.items)
                        r.push_back(KM::make(it.k));
                    do_find_range(op, r, res);
                }
                break;
            }
            case FNDF:
            case FNDFI: {
                if (op.kind == FNDFI && K != FIFO)
                    unsupported(K, op.kind);
                const bool aslist = (op.v & 1) != 0;
                if constexpr (K == UTSET)
                {
                    std::vector<std::pair<KT, bool>> r;
                    for (auto& it : op.items)
                        r.emplace_back(KM::make(it.k), false);
                    m_c->find_range_fill(r);
                    for (auto& [k, b] : r)
                    {
                        res.keys.push_back(KM::back(k));
                        res.vals.push_back(b ? std::optional<uint64_t>(SET_MEMBER) : std::nullopt);
                    }
                }
                else if (aslist)
                {
                    std::list<std::pair<KT, std::optional<VT>>> r;
                    for (auto& it : op.items)
                        r.emplace_back(KM::make(it.k), std::nullopt);
                    do_find_fill(op, r, res);
                }
                else
                {
                    std::vector<std::pair<KT, std::optional<VT>>> r;
                    for (auto& it : op.items)
                        r.emplace_back(KM::make(it.k), std::nullopt);
                    do_find_fill(op, r, res);
                }
                break;
            }
            case SIZE:
                res.n = m_c->size();
                break;
            case EMPTY:
                res.b = m_c->empty();
                break;
            case CAP:
                if constexpr (K == UTMAP || K == UTSET)
                    unsupported(K, op.kind);
                else
                    res.n = m_c->capacity();
                break;
            case CLEAN:
                if constexpr (K == TLRU || K == UTLRU || K == UTMAP || K == UTSET)
                    res.n = m_c->clean_expired_values();
                else
                    unsupported(K, op.kind);
                break;
            case AGE:
                if constexpr (K == LFUDA)
                    res.n = m_c->dynamically_age();
                else
                    unsupported(K, op.kind);
                break;
            case CLEAR:
                if constexpr (K == UTLRU || K == UTMAP)
                    m_c->clear();
                else
                    unsupported(K, op.kind);
                break;
            case SETTTL:
                if constexpr (K == UTLRU)
                    m_c->update_ttl(ms(op.ttl));
                else
                    unsupported(K, op.kind);
                break;
            default:
                unsupported(K, op.kind);
        }
    }

private:
    template<class R>
    void do_find_range(const Op& op, const R& r, Res& res)
    {
        if constexpr (K == UTSET)
        {
            auto out = m_c->find_range(r);
            for (auto& [k, b] : out)
            {
                res.keys.push_back(KM::back(k));
                res.vals.push_back(b ? std::optional<uint64_t>(SET_MEMBER) : std::nullopt);
            }
        }
        else
        {
            std::vector<std::pair<KT, std::optional<VT>>> out;
            if constexpr (K == LRU || K == MRU || K == TLRU || K == UTLRU)
                out = m_c->find_range(r, op.peek ? cap::peek::yes : cap::peek::no);
            else if constexpr (K == LFU || K == LFUDA)
                out = m_c->find_range(r, op.peek);
            else if constexpr (K == FIFO)
            {
                if (op.kind == FNDI)
                    out = m_c->find(r.begin(), r.end(), (op.v & 2) ? r.size() : 0);
                else
                    out = m_c->find_range(r);
            }
            else
                out = m_c->find_range(r);
            for (auto& [k, v] : out)
            {
                res.keys.push_back(KM::back(k));
                res.vals.push_back(v ? std::optional<uint64_t>(VM::back(*v)) : std::nullopt);
            }
        }
    }
    template<class R>
    void do_find_fill(const Op& op, R& r, Res& res)
    {
        if constexpr (K == UTSET)
        {
            (void)op;
            (void)r;
            (void)res;
        }
        else
        {
            if constexpr (K == LRU || K == MRU || K == TLRU || K == UTLRU)
                m_c->find_range_fill(r, op.peek ? cap::peek::yes : cap::peek::no);
            else if constexpr (K == LFU || K == LFUDA)
                m_c->find_range_fill(r, op.peek);
            else if constexpr (K == FIFO)
            {
                if (op.kind == FNDFI)
                    m_c->find_range_fill(r.begin(), r.end());
                else
                    m_c->find_range_fill(r);
            }
            else
                m_c->find_range_fill(r);
            for (auto& [k, v] : r)
            {
                res.keys.push_back(KM::back(k));
                res.vals.push_back(v ? std::optional<uint64_t>(VM::back(*v)) : std::nullopt);
            }
        }
    }

    VT mk(uint64_t id)
    {
        if constexpr (kSharedVals)
        {
            auto                        p = std::make_shared<uint64_t>(id);
            std::lock_guard<std::mutex> g(m_weak_lock);
            if (m_weak.size() > 4096)
            {
                size_t w = 0;
                for (size_t i = 0; i < m_weak.size(); ++i)
                    if (!m_weak[i].expired())
                        m_weak[w++] = m_weak[i];
                m_weak.resize(w);
            }
            m_weak.push_back(p);
            return p;
        }
        else
            return VM::make(id);
    }

    Cfg                                  m_cfg;
    C*                                   m_c{nullptr};
    std::mutex                           m_weak_lock;
    std::vector<std::weak_ptr<uint64_t>> m_weak;
};

template<int K>
ICache* make_cache_kind(const Cfg& cfg)
{
#ifdef VH_ONLY_TYPESET0
    if (cfg.typeset != 0)
    {
        std::fprintf(stderr, "HARNESS-FAILURE: this build supports typeset 0 only\n");
        std::abort();
    }
#else
    if (cfg.typeset == 1)
    {
        if (cfg.ts)
            return new Adapter<K, std::string, Tracked, cap::thread_safe::yes>(cfg);
        return new Adapter<K, std::string, Tracked, cap::thread_safe::no>(cfg);
    }
    if (cfg.typeset == 2)
    {
        if (cfg.ts)
            return new Adapter<K, CollidingKey, std::shared_ptr<uint64_t>, cap::thread_safe::yes>(cfg);
        return new Adapter<K, CollidingKey, std::shared_ptr<uint64_t>, cap::thread_safe::no>(cfg);
    }
#endif
    if (cfg.ts)
        return new Adapter<K, uint64_t, uint64_t, cap::thread_safe::yes>(cfg);
    return new Adapter<K, uint64_t, uint64_t, cap::thread_safe::no>(cfg);
}

} // namespace vh
