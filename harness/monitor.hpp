// Online monitor: follows the executable specification with a set of candidate states, and when no
// candidate explains an observation, evaluates tagged oracle clauses (each a literal instance of
// one property statement) to say which properties the observation contradicts.
#pragma once
#include "model.hpp"

#include <map>
#include <set>
#include <string>
#include <vector>

namespace vh
{
struct Violation
{
    std::vector<std::string> tags; // e.g. "C01.value"
    std::string              detail;
    int                      op_index{-1};
};

struct Counters
{
    uint64_t ev[64]{};
    uint64_t ops{0}, lookups_checked{0}, audit_rows{0}, audits{0}, probes{0}, full_inserts{0}, cases{0}, inconclusive{0};
    uint64_t cand_max{0}, cand_multi_steps{0};
    uint64_t rr_evictions{0};
    void     add_ev(uint64_t m)
    {
        for (int i = 0; i < EV_NBITS; ++i)
            if (m & (1ull << i))
                ++ev[i];
    }
};

class Monitor
{
public:
    Model              model;
    std::vector<State> cands;
    std::vector<State> prev; // candidates before the last step (context for explaining an audit)
    // which keys the audit after the previous op / after the current op looked at: a live key that goes
    // missing can be blamed on the current op only if it was sighted right before it
    std::vector<char> looked_prev, looked_cur;
    Counters*          ctr;
    uint64_t           case_ev{0}; // events seen in this case
    bool               inconclusive{false};
    // rr spread statistics (C15)
    std::vector<uint64_t> rr_rank_hist;
    std::vector<uint64_t> rr_surv;
    uint64_t              rr_evictions{0}, rr_max_surv{0};
    bool                  rr_pending{false};
    State                 rr_pre;

    Monitor(const Cfg& cfg, Counters* c) : model(cfg), ctr(c)
    {
        cands.push_back(model.initial());
        rr_rank_hist.assign((size_t)cfg.cap + 1, 0);
        rr_surv.assign((size_t)cfg.universe, 0);
    }
    const State& state() const { return cands[0]; }
    const Cfg&   cfg() const { return model.cfg; }

    // One observed step: the op, its result, the observer probes taken right after it and (optionally)
    // an audit (side-effect-free lookup of the listed keys).  Returns true if some candidate explains
    // everything; otherwise fills 'viol'.
    bool step(const Op& op, const Res& obs, const Probe& pr, const std::vector<AuditRow>* audit, int64_t now, Violation& viol)
    {
        ++ctr->ops;
        looked_prev.swap(looked_cur);
        looked_cur.clear();
        std::vector<Outcome> outs, keep;
        for (auto& s : cands)
        {
            if (!model.step(s, op, now, outs) || outs.size() > model.cand_cap())
            {
                inconclusive = true;
                ++ctr->inconclusive;
                return true;
            }
        }
        if (op_is_find(op.kind))
            ctr->lookups_checked += obs.vals.size();
        // filter by the op's own result
        for (auto& o : outs)
            if (res_equal(op, o.res, obs))
                keep.push_back(std::move(o));
        // probes: SIZE, EMPTY, CAP
        ++ctr->probes;
        std::vector<Outcome> k2;
        for (auto& o : keep)
            probe_filter(o, pr, k2);
        keep.swap(k2);
        // audit
        if (audit)
        {
            ++ctr->audits;
            k2.clear();
            for (auto& o : keep)
                if (audit_ok(o.st, *audit))
                    k2.push_back(std::move(o));
            keep.swap(k2);
            for (auto& row : *audit)
                if (row.looked)
                    ++ctr->audit_rows;
        }
        if (keep.empty())
        {
            explain_all(op, obs, pr, audit, now, viol);
            return false;
        }
        // commit
        dedup(keep);
        uint64_t ev = keep[0].ev;
        case_ev |= ev;
        ctr->add_ev(ev);
        if (ev & (EV_EVICT | EV_EVICT_EXPIRED))
            ++ctr->full_inserts;
        rr_pending = false;
        const bool rr_single = model.cfg.kind == RR && (op.kind == INS || ((op.kind == INSR || op.kind == INSI) && op.items.size() == 1));
        if (rr_single && keep.size() == 1 && keep[0].victims.size() == 1)
            rr_stat(cands[0], keep[0].victims[0]);
        else if (rr_single && cands.size() == 1 && !keep[0].victims.empty())
        {
            // which resident was evicted is only known once the audit has looked: decide there
            rr_pending = true;
            rr_pre     = cands[0];
        }
        else if (model.cfg.kind == RR && (op.kind == INS || op.kind == INSR))
            rr_reset_written(keep[0]);
        prev.swap(cands);
        cands.clear();
        for (auto& o : keep)
            cands.push_back(std::move(o.st));
        if (cands.size() > ctr->cand_max)
            ctr->cand_max = cands.size();
        if (cands.size() > 1)
            ++ctr->cand_multi_steps;
        return true;
    }

    // Second stage of a step: an audit (side-effect-free lookups taken right after the op and its probes)
    // filters the committed candidates; if none survives the mismatch is explained with the op as context.
    bool audit_filter(const Op& op, const Res& obs, const Probe& pr, const std::vector<AuditRow>& rows, int64_t now, Violation& viol)
    {
        ++ctr->audits;
        looked_cur.assign(rows.size(), 0);
        for (size_t k = 0; k < rows.size(); ++k)
            if (rows[k].looked)
            {
                looked_cur[k] = 1;
                ++ctr->audit_rows;
            }
        std::vector<State> keep;
        for (auto& s : cands)
            if (audit_ok(s, rows))
                keep.push_back(s);
        if (keep.empty())
        {
            std::vector<State> cur;
            cur.swap(cands);
            cands = prev;
            explain_all(op, obs, pr, &rows, now, viol);
            cands.swap(cur);
            return false;
        }
        cands.swap(keep);
        // values the audit has just confirmed are facts from now on
        for (auto& c : cands)
            for (size_t k = 0; k < rows.size() && k < c.k.size(); ++k)
                if (rows[k].looked && c.k[k].st == LIVE)
                    c.k[k].inferred = 0;
        if (rr_pending)
        {
            rr_pending = false;
            if (cands.size() == 1)
            {
                int victim = -1, n = 0;
                for (size_t k = 0; k < rr_pre.k.size(); ++k)
                    if (rr_pre.k[k].st == LIVE && cands[0].k[k].st != LIVE)
                    {
                        victim = (int)k;
                        ++n;
                    }
                if (n == 1)
                    rr_stat(rr_pre, victim);
            }
        }
        return true;
    }

    // A step failed before any audit was taken: the driver audits on demand and asks again, so that
    // "size() is wrong" and "a key is missing" are told apart by what lookups actually find.
    void explain_with_audit(const Op& op, const Res& obs, const Probe& pr, const std::vector<AuditRow>& rows, int64_t now, Violation& viol)
    {
        explain_all(op, obs, pr, &rows, now, viol);
    }

    // After a violation whose only visible effect is on *which keys are resident* (a wrong or an extra victim,
    // an entry lost), the follower can adopt what the audit found and carry on with the same case, so that the
    // clauses of other properties still get evaluated on the rest of the history.  Sound only if every key the
    // implementation holds is one whose metadata the specification knows (same value, same count): otherwise
    // the case ends here.  'after_audit_stage' says whether stage one of the failing step had been committed.
    bool try_resync(const Op& op, const Res& obs, const Probe& pr, const std::vector<AuditRow>& rows, int64_t now, bool after_audit_stage)
    {
        const std::vector<State>& pres = after_audit_stage ? prev : cands;
        if (pres.empty())
            return false;
        State P = pres[0];
        model.expire(P, now);
        std::vector<State> targets;
        if (after_audit_stage)
        {
            for (auto& c : cands)
                targets.push_back(c);
        }
        else
        {
            std::vector<Outcome> outs;
            if (!model.step(pres[0], op, now, outs))
                return false;
            for (auto& o : outs)
                if (res_equal(op, o.res, obs))
                    targets.push_back(o.st);
            // a call that merely *reported* something wrong (a count, a bool) may still have done what the
            // specification says: then any outcome whose state the audit confirms will do - provided the audit
            // really looked at every key the call addressed (an audit that skips expired-unreaped keys cannot
            // confirm what a refused insert or erase did to such a key)
            if (targets.empty())
            {
                bool looked_all = true;
                auto chk = [&](int k) {
                    if ((size_t)k >= rows.size() || !rows[(size_t)k].looked)
                        looked_all = false;
                };
                if (op.kind == INS || op.kind == ERA || op.kind == FND || op.kind == FUC)
                    chk(op.k);
                for (auto& it : op.items)
                    chk(it.k);
                if (!looked_all)
                    return false;
                for (auto& o : outs)
                    targets.push_back(o.st);
            }
        }
        for (auto& tg : targets)
            if (resync_to(tg, P, pr, rows))
                return true;
        return false;
    }
    bool resync_to(State target, const State& P, const Probe& pr, const std::vector<AuditRow>& rows)
    {
        for (size_t k = 0; k < rows.size() && k < target.k.size(); ++k)
        {
            if (!rows[k].looked)
                continue;
            KS& e = target.k[k];
            if (rows[k].val)
            {
                if (e.st == LIVE)
                {
                    if (*rows[k].val != e.val)
                        return false;
                    if (kind_has_counts(model.cfg.kind) && (!rows[k].cnt || *rows[k].cnt != e.count))
                        return false;
                }
                else
                {
                    const KS& pk = P.k[k];
                    if (pk.st != LIVE || pk.val != *rows[k].val)
                        return false;
                    if (kind_has_counts(model.cfg.kind) && (!rows[k].cnt || *rows[k].cnt != pk.count))
                        return false;
                    e = pk; // the specification's victim was not the one evicted
                }
            }
            else if (e.st == LIVE)
            {
                e.st  = ABSENT;
                e.why = W_EVICTED;
            }
        }
        // keys the audit skipped because they were expired-unreaped may still occupy a slot, whatever the adopted outcome
        // assumed about them (e.g. a clean_expired_values that reported the wrong count may not have removed them all)
        if (model.ttllru())
            for (size_t k = 0; k < rows.size() && k < target.k.size(); ++k)
                if (!rows[k].looked && P.k[k].st == EXPU && target.k[k].st == ABSENT && target.k[k].why == W_EXPIRED)
                    target.k[k].st = EXPU;
        int live = target.live();
        if (!model.ttl())
        {
            if (pr.size != (uint64_t)live)
                return false;
        }
        else if (model.utm())
        {
            // the audit's lookups have purged: nothing expired may still be counted
            if (pr.size != (uint64_t)live)
                return false;
            Model::clear_u(target);
            target.purged = true;
        }
        else
        {
            if (pr.size < (uint64_t)live || pr.size > (uint64_t)(live + target.ucount()))
                return false;
            target.r = (int)(pr.size - (uint64_t)live);
            if (target.r == 0)
                Model::clear_u(target);
        }
        if (kind_has_capacity(model.cfg.kind) && (pr.size > (uint64_t)model.cfg.cap || pr.cap != (uint64_t)model.cfg.cap))
            return false;
        cands.clear();
        cands.push_back(std::move(target));
        looked_cur.assign(rows.size(), 0);
        for (size_t k = 0; k < rows.size(); ++k)
            looked_cur[k] = rows[k].looked ? 1 : 0;
        rr_pending = false;
        ++resyncs;
        return true;
    }
    int resyncs{0};

    // C15 statistical clause, evaluated at the end of a case.
    bool rr_spread_check(Violation& viol)
    {
        if (model.cfg.kind != RR)
            return true;
        size_t c = (size_t)model.cfg.cap;
        if (c >= 2 && rr_max_surv > 60 * c)
        {
            viol.tags   = {"C15.spread"};
            viol.detail = "a resident survived " + std::to_string(rr_max_surv) + " consecutive evictions at capacity " + std::to_string(c);
            return false;
        }
        if (c >= 2 && rr_evictions >= 200 * c)
        {
            for (size_t i = 0; i < c; ++i)
            {
                if (rr_rank_hist[i] == 0)
                {
                    viol.tags   = {"C15.spread"};
                    viol.detail = "insertion-age rank " + std::to_string(i) + " of " + std::to_string(c) + " was never chosen in " +
                                  std::to_string(rr_evictions) + " evictions";
                    return false;
                }
                if (rr_rank_hist[i] == rr_evictions)
                {
                    viol.tags   = {"C15.spread"};
                    viol.detail = "insertion-age rank " + std::to_string(i) + " was chosen in every one of " + std::to_string(rr_evictions) + " evictions";
                    return false;
                }
            }
        }
        return true;
    }

    // expected side-effect-free view of key k in candidate 0 (used by generators / twins)
    bool is_live(int k) const { return cands[0].k[(size_t)k].st == LIVE; }

private:
    void rr_reset_written(const Outcome& o)
    {
        for (size_t i = 0; i < o.st.k.size(); ++i)
            if (o.st.k[i].st != LIVE)
                rr_surv[i] = 0;
    }
    void rr_stat(const State& pre, int victim)
    {
        // rank of the victim by insertion age among the residents before the eviction
        size_t rank = 0;
        for (size_t i = 0; i < pre.k.size(); ++i)
            if (pre.k[i].st == LIVE && pre.k[i].ins_seq < pre.k[(size_t)victim].ins_seq)
                ++rank;
        if (rank < rr_rank_hist.size())
            ++rr_rank_hist[rank];
        ++rr_evictions;
        ++ctr->rr_evictions;
        for (size_t i = 0; i < pre.k.size(); ++i)
        {
            if (pre.k[i].st == LIVE && (int)i != victim)
            {
                ++rr_surv[i];
                if (rr_surv[i] > rr_max_surv)
                    rr_max_surv = rr_surv[i];
            }
            else
                rr_surv[i] = 0;
        }
    }

    void dedup(std::vector<Outcome>& v)
    {
        if (v.size() < 2)
            return;
        std::vector<Outcome>  d;
        std::vector<uint64_t> hs;
        for (auto& o : v)
        {
            uint64_t h   = o.st.hash();
            bool     dup = false;
            for (size_t i = 0; i < d.size(); ++i)
                if (hs[i] == h && d[i].st == o.st)
                {
                    dup = true;
                    break;
                }
            if (!dup)
            {
                hs.push_back(h);
                d.push_back(std::move(o));
            }
        }
        v.swap(d);
    }

    void probe_filter(Outcome& o, const Probe& pr, std::vector<Outcome>& out)
    {
        // CAP and EMPTY do not depend on the candidate beyond SIZE
        if (kind_has_capacity(model.cfg.kind) && pr.cap != (uint64_t)model.cfg.cap)
            return;
        if (pr.empty != (pr.size == 0))
            return;
        if (kind_has_capacity(model.cfg.kind) && pr.size > (uint64_t)model.cfg.cap)
            return;
        int live = o.st.live();
        if (!model.ttl())
        {
            if (pr.size == (uint64_t)live)
                out.push_back(std::move(o));
            return;
        }
        if (model.utm())
        {
            if (o.st.purged)
            {
                if (pr.size == (uint64_t)live)
                    out.push_back(std::move(o));
                return;
            }
            // not pinned: may still count entries expired since the last purging call
            if (pr.size >= (uint64_t)live && pr.size <= (uint64_t)(live + o.st.r))
            {
                o.st.r = (int)(pr.size - (uint64_t)live);
                if (o.st.r == 0)
                    Model::clear_u(o.st);
                out.push_back(std::move(o));
            }
            return;
        }
        // tlru / utlru: size == live + r exactly for this candidate
        if (pr.size == (uint64_t)(live + o.st.r))
            out.push_back(std::move(o));
    }

    bool audit_ok(const State& s, const std::vector<AuditRow>& a) const
    {
        for (size_t k = 0; k < a.size(); ++k)
        {
            if (!a[k].looked)
                continue;
            const KS& e = s.k[k];
            if (e.st == LIVE)
            {
                if (!a[k].val || *a[k].val != e.val)
                    return false;
                if (kind_has_counts(model.cfg.kind) && (!a[k].cnt || *a[k].cnt != e.count))
                    return false;
            }
            else if (a[k].val)
                return false;
        }
        return true;
    }

    // ------------------------------------------------------------------------------------------
    // Clause evaluation.  A clause is blamed only if it is contradicted from every candidate
    // pre-state (intersection), so ambiguity in the follower never turns into blame.
    void explain_all(const Op& op, const Res& obs, const Probe& pr, const std::vector<AuditRow>* audit, int64_t now, Violation& viol)
    {
        std::set<std::string> inter;
        std::string           detail;
        bool                  first = true;
        for (auto& s : cands)
        {
            std::set<std::string> t;
            std::string           d;
            explain(s, op, obs, pr, audit, now, t, d);
            if (first)
            {
                inter  = t;
                detail = d;
                first  = false;
            }
            else
            {
                std::set<std::string> x;
                for (auto& e : inter)
                    if (t.count(e))
                        x.insert(e);
                inter.swap(x);
            }
        }
        if (inter.empty())
            inter.insert("UNATTRIBUTED.mismatch");
        // an entry re-written by a successful update that dies before its restarted deadline also refutes C09's
        // "replaces the value (restarting any TTL)"
        if (inter.count("C05.restart"))
            inter.insert("C09.restart");
        viol.tags.assign(inter.begin(), inter.end());
        viol.detail = detail;
    }

    bool sighted(int k) const { return (size_t)k < looked_prev.size() && looked_prev[(size_t)k]; }
    // With a victim policy in play the follower's belief about *which* keys are resident is only as good as
    // the last audit: a result that contradicts that belief is blamed on the op only if the key (or, for
    // whole-state results, every key) was sighted right before it.
    bool belief_pinned(int k) const { return !kind_has_capacity(model.cfg.kind) || sighted(k); }
    // ... but "this key has no live entry because it was never written / was erased / was cleared / its deadline has
    // passed" is a fact (it follows from observed results and the clock); only "live" and "evicted" are beliefs.
    // 'needs_residency': the expected result depends on whether an expired entry still occupies a slot (update-only
    // insert, erase) - that, too, is only a belief unless sighted.
    bool belief_pinned(int k, const State& P, bool needs_residency) const
    {
        if (belief_pinned(k))
            return true;
        const KS& e = P.k[(size_t)k];
        bool expired = e.st == EXPU || (e.st == ABSENT && e.why == W_EXPIRED);
        if (expired)
            return !needs_residency;
        return e.st == ABSENT && e.why != W_EVICTED;
    }
    bool all_pinned() const
    {
        if (!kind_has_capacity(model.cfg.kind))
            return true;
        if (looked_prev.size() < (size_t)model.cfg.universe)
            return false;
        const State& s = cands.empty() ? prev[0] : cands[0];
        for (size_t k = 0; k < looked_prev.size(); ++k)
            if (!looked_prev[k] && s.k[k].st != EXPU)
                return false;
        return true;
    }

    static std::string optstr(const std::optional<uint64_t>& v) { return v ? std::to_string(*v) : std::string("-"); }

    // classify a lookup result for key k given state P (already expired at now) -------------------
    void lookup_tags(const State& P, int k, const std::optional<uint64_t>& val, const std::optional<uint64_t>& cnt, bool cnt_known,
                     uint64_t expect_cnt, std::set<std::string>& t, std::string& d, const char* where) const
    {
        const KS& e = P.k[(size_t)k];
        if (e.st == LIVE)
        {
            if (!val)
            {
                // a live key misses: retention (and, for TTL containers, the entry died before its deadline).
                // Blamed on this op only if the key was sighted by the audit right before it; a container that
                // never evicts has no other legitimate way to lose it, so there the blame needs no sighting.
                if (sighted(k) || !kind_has_capacity(model.cfg.kind))
                {
                    t.insert("C03.collateral");
                    if (model.ttl())
                        t.insert(e.moved ? "C05.restart" : "C05.early");
                    if (!kind_has_capacity(model.cfg.kind))
                        t.insert("C03.noevict");
                }
                else
                    t.insert("UNATTRIBUTED.late-loss");
                d += std::string(where) + ": key " + std::to_string(k) + " is live in the specification but the lookup missed; ";
            }
            else if (*val != e.val)
            {
                // "latest successful write" is a fact for single calls (their result was observed) but only an inference
                // for an element of a range, until an audit has confirmed it
                t.insert(e.inferred ? "UNATTRIBUTED.range-value" : "C01.value");
                d += std::string(where) + ": key " + std::to_string(k) + " returned value " + std::to_string(*val) + ", latest write was " +
                     std::to_string(e.val) + (e.inferred ? " (written by a range element, unconfirmed)" : "") + "; ";
            }
            else if (cnt_known && cnt && *cnt != expect_cnt)
            {
                t.insert(model.cfg.kind == LFUDA ? "C14.counts" : "C11.count");
                if (model.cfg.kind == LFUDA)
                    t.insert("C11.count");
                d += std::string(where) + ": key " + std::to_string(k) + " use count " + std::to_string(*cnt) + ", specification " +
                     std::to_string(expect_cnt) + "; ";
            }
        }
        else if (val)
        {
            if (e.st == EXPU || e.why == W_EXPIRED)
            {
                if (e.inferred)
                {
                    // the deadline comes from a range element whose acceptance nobody observed (an unconfirmed inference)
                    t.insert("UNATTRIBUTED.range-value");
                }
                else
                {
                    t.insert("C04.stale");
                    t.insert("C01.expired"); // C01: a value is reported only if the write has not since been undone by expiry
                }
                d += std::string(where) + ": key " + std::to_string(k) + " returned after its deadline; ";
            }
            else
            {
                // "evicted" is the follower's belief about a victim nobody observed unless the key was sighted
                // absent right before; never-written / erased / cleared are facts
                if (e.why == W_EVICTED && !sighted(k))
                    t.insert("UNATTRIBUTED.late-ghost");
                else
                    t.insert("C01.ghost");
                static const char* whys[] = {"never written", "erased", "evicted", "cleared", "expired"};
                d += std::string(where) + ": key " + std::to_string(k) + " (" + whys[e.why] + ") reported present with value " + std::to_string(*val) + "; ";
            }
        }
    }

    const char* victim_clause() const
    {
        switch (model.cfg.kind)
        {
            case LRU:
            case TLRU:
            case UTLRU:
                return "C10.victim";
            case LFU:
                return "C11.victim-min";
            case LFUDA:
                return "C14.victim";
            case FIFO:
                return "C12.victim";
            case MRU:
                return "C13.victim";
            default:
                return nullptr;
        }
    }

    void explain(const State& P0, const Op& op, const Res& obs, const Probe& pr, const std::vector<AuditRow>* audit, int64_t now,
                 std::set<std::string>& t, std::string& d) const
    {
        const Cfg& c = model.cfg;
        State      P = P0;
        model.expire(P, now);
        const int r_pre    = P.r;
        const int live_pre = P.live();
        if (model.op_purges(op.kind) && op.kind != CLEAN)
            Model::clear_u(P);
        const bool was_full = kind_has_capacity(c.kind) && (live_pre + (model.ttl() ? r_pre : 0)) >= c.cap;

        // ---- observers (C02) -------------------------------------------------------------------
        if (kind_has_capacity(c.kind) && pr.cap != (uint64_t)c.cap)
        {
            t.insert("C02.cap");
            d += "capacity() = " + std::to_string(pr.cap) + ", constructed with " + std::to_string(c.cap) + "; ";
        }
        if (kind_has_capacity(c.kind) && pr.size > (uint64_t)c.cap)
        {
            t.insert("C02.bound");
            d += "size() = " + std::to_string(pr.size) + " exceeds capacity " + std::to_string(c.cap) + "; ";
        }
        if (pr.empty != (pr.size == 0))
        {
            t.insert("C02.empty");
            d += "empty() disagrees with size() = " + std::to_string(pr.size) + "; ";
        }

        // ---- the op's own result ----------------------------------------------------------------
        std::vector<Outcome> outs, keep;
        model.step(P0, op, now, outs);
        bool result_ok = false;
        for (auto& o : outs)
            if (res_equal(op, o.res, obs))
            {
                result_ok = true;
                keep.push_back(o);
            }
        if (!result_ok)
        {
            bool pinned = true;
            if (op.kind == INS || op.kind == ERA)
                pinned = belief_pinned(op.k, P, op.kind == ERA || op.allow == A_UPDATE);
            else if (op.kind == INSR || op.kind == INSI || op.kind == ERAR || op.kind == ERAI || op.kind == AGE || op.kind == CLEAN)
                pinned = all_pinned();
            if (!pinned)
            {
                t.insert("UNATTRIBUTED.late-result");
                d += std::string(opk_names[op.kind]) + " returned " + res_to_text(op, obs) + ", which contradicts the follower's belief about keys not sighted since the last audit; ";
                return;
            }
            switch (op.kind)
            {
                case INS: {
                    const char* cl = op.allow == A_INSERT ? "C09.insert" : (op.allow == A_UPDATE ? "C09.update" : "C09.upsert");
                    t.insert(cl);
                    d += std::string("insert(allow=") + std::to_string(op.allow) + ") on key " + std::to_string(op.k) + " returned " +
                         (obs.b ? "true" : "false") + " but the key is " +
                         (P.k[(size_t)op.k].st == LIVE ? "live" : (P.k[(size_t)op.k].st == EXPU ? "expired-unreaped" : "absent")) + "; ";
                    break;
                }
                case INSR:
                case INSI:
                    // What a range insert returns depends on the intermediate states of its own elements (an earlier
                    // element may evict a key a later element addresses), which nobody observed: the count alone does
                    // not say which clause is broken.  The driver re-runs the history with the range expanded into
                    // single calls under dense audits; only if those conform is it the range form (C18 / C09.count).
                    if (!kind_has_capacity(c.kind))
                    {
                        // no capacity, no victims: every element's outcome follows from the pre-state and the earlier
                        // elements of the same range, which the specification computes exactly
                        t.insert("C09.count");
                        t.insert("C18.count");
                    }
                    else
                        t.insert("UNATTRIBUTED.range-result");
                    d += "insert_range returned " + std::to_string(obs.n) + ", specification " + (outs.empty() ? std::string("?") : std::to_string(outs[0].res.n)) + "; ";
                    break;
                case ERA:
                    if (P.k[(size_t)op.k].st == LIVE && !obs.b)
                        t.insert("UNATTRIBUTED.erase-result");
                    else
                    {
                        // erase of an absent key reported success: something was removed (or counted) that was not there
                        t.insert("C19.absent-erase");
                    }
                    d += "erase(" + std::to_string(op.k) + ") returned " + (obs.b ? "true" : "false") + "; ";
                    break;
                case ERAR:
                case ERAI:
                    // erasing never evicts: the count is determined by the (pinned) pre-state
                    t.insert("C18.count");
                    d += "erase_range returned " + std::to_string(obs.n) + ", specification " + (outs.empty() ? std::string("?") : std::to_string(outs[0].res.n)) + "; ";
                    break;
                case FND:
                case FUC: {
                    const KS& e      = P.k[(size_t)op.k];
                    uint64_t  expcnt = e.count + ((kind_has_peek(c.kind) && !op.peek) ? 1 : 0);
                    std::optional<uint64_t> v = obs.vals.empty() ? std::nullopt : obs.vals[0];
                    lookup_tags(P, op.k, v, obs.cnt, op.kind == FUC, expcnt, t, d, "lookup");
                    if (op.kind == FUC && v && !obs.cnt)
                        t.insert("C11.count");
                    break;
                }
                case FNDR:
                case FNDF:
                case FNDI:
                case FNDFI: {
                    if (obs.vals.size() != op.items.size())
                    {
                        t.insert("C18.shape");
                        d += "range lookup returned " + std::to_string(obs.vals.size()) + " results for " + std::to_string(op.items.size()) + " keys; ";
                        break;
                    }
                    bool keys_ok = true;
                    for (size_t i = 0; i < op.items.size(); ++i)
                        if (obs.keys[i] != op.items[i].k)
                            keys_ok = false;
                    if (!keys_ok)
                    {
                        t.insert("C18.order");
                        d += "range lookup results are not in input order; ";
                        break;
                    }
                    for (size_t i = 0; i < op.items.size(); ++i)
                        lookup_tags(P, op.items[i].k, obs.vals[i], std::nullopt, false, 0, t, d, "range lookup");
                    break;
                }
                case CLEAN:
                    t.insert("C17.count");
                    d += "clean_expired_values returned " + std::to_string(obs.n) + " with " + std::to_string(r_pre) + " expired entries resident; ";
                    break;
                case AGE:
                    t.insert("C14.return");
                    d += "dynamically_age returned " + std::to_string(obs.n) + ", entries idle longer than the tick: " + std::to_string(model.due_count(P, now)) + "; ";
                    break;
                default:
                    break;
            }
            if (t.empty())
                t.insert("UNATTRIBUTED.result");
            if (!audit)
                return;
            // with an audit at hand, also look at what the op did to the resident keys (a call that reports the
            // wrong count may, in addition, have removed a live entry): judged against every outcome
            for (auto& o : outs)
                keep.push_back(o);
            if (keep.empty())
                return;
        }

        // ---- the contradiction is in size() or in the audit ---------------------------------------
        // keys this op legitimately wrote / removed
        std::vector<char> wrote(P.k.size(), 0), erased(P.k.size(), 0);
        uint64_t          dead_on_arrival = 0;
        if (op.kind == INS && obs.b)
            wrote[(size_t)op.k] = 1;
        if (op.kind == ERA && obs.b)
            erased[(size_t)op.k] = 1;
        if (op.kind == INSR || op.kind == INSI)
            for (auto& it : op.items)
                wrote[(size_t)it.k] = 2; // possibly
        if (op.kind == ERAR || op.kind == ERAI)
            for (auto& it : op.items)
                erased[(size_t)it.k] = 1;
        if (op_is_insert(op.kind) && model.ttl())
        {
            if (c.kind == TLRU)
            {
                if (op.kind == INS)
                    dead_on_arrival = (obs.b && op.ttl <= 0) ? 1 : 0;
                else
                    for (auto& it : op.items)
                        dead_on_arrival += it.ttl <= 0 ? 1 : 0;
            }
            else if (P.ttl_cfg <= 0)
                dead_on_arrival = op.kind == INS ? (obs.b ? 1 : 0) : obs.n;
        }
        // keys this op (possibly) wrote with a TTL of 0: dead on arrival, so their absence afterwards is no loss
        std::vector<char> doa(P.k.size(), 0);
        if (model.ttl() && op_is_insert(op.kind))
        {
            if (op.kind == INS)
            {
                if (obs.b && (c.kind == TLRU ? op.ttl <= 0 : P.ttl_cfg <= 0))
                    doa[(size_t)op.k] = 1;
            }
            else
                for (auto& it : op.items)
                    if (c.kind == TLRU ? it.ttl <= 0 : P.ttl_cfg <= 0)
                        doa[(size_t)it.k] = 1;
        }
        const bool single_new_insert = op.kind == INS && obs.b && P.k[(size_t)op.k].st != LIVE;
        const bool is_noeffect =
            (op.kind == INS && !obs.b) || (op.kind == ERA && !obs.b) || (op_is_find(op.kind) && !op_is_range(op.kind) && (op.peek || obs.vals.empty() || !obs.vals[0]));

        // size() ---------------------------------------------------------------------------------
        bool size_explained = false;
        for (auto& o : keep)
        {
            std::vector<Outcome> tmp;
            Outcome              oc = o;
            const_cast<Monitor*>(this)->probe_filter(oc, pr, tmp);
            if (!tmp.empty())
                size_explained = true;
        }
        if (!size_explained && op.kind == CLEAR && pr.size != 0)
        {
            t.insert("C20.empty");
            d += "size() = " + std::to_string(pr.size) + " after clear(); ";
        }
        // With an audit at hand, "truthful size()" is judged against what the lookups really found, not against
        // the specification's idea of the contents (a wrongly evicted key is a retention failure, not a size failure).
        bool size_judged_by_audit = false;
        if (!size_explained && audit && kind_has_capacity(c.kind))
        {
            bool     all = true;
            uint64_t found = 0;
            int      umax  = 0;
            for (size_t k = 0; k < audit->size(); ++k)
            {
                if (!(*audit)[k].looked)
                {
                    if (P.k[k].st != EXPU)
                        all = false;
                    continue;
                }
                if ((*audit)[k].val)
                    ++found;
            }
            for (auto& o : keep)
                umax = std::max(umax, o.st.ucount());
            if (all)
            {
                size_judged_by_audit = true;
                if (!model.ttl())
                {
                    if (pr.size != found)
                    {
                        t.insert("C02.count");
                        d += "size() = " + std::to_string(pr.size) + " but lookups find " + std::to_string(found) + " keys; ";
                    }
                }
                else if (pr.size < found || pr.size > found + (uint64_t)std::max(umax, r_pre))
                {
                    t.insert("C02.ttl-range");
                    d += "size() = " + std::to_string(pr.size) + " outside [found, found + expired-unreaped] with " + std::to_string(found) + " keys found; ";
                }
                if (single_new_insert && was_full && pr.size != (uint64_t)c.cap)
                {
                    t.insert("C03.size-after");
                    d += "insert of a new key into a full cache left size() = " + std::to_string(pr.size) + "; ";
                }
                if (op.kind == CLEAN && model.ttllru() && pr.size != found)
                {
                    t.insert("C17.complete");
                    d += "size() = " + std::to_string(pr.size) + " after clean_expired_values with " + std::to_string(found) + " live keys found; ";
                }
            }
        }
        if (!size_explained && t.empty() && !size_judged_by_audit)
        {
            int live_after = keep[0].st.live();
            if (!model.ttl())
            {
                t.insert("C02.count");
                d += "size() = " + std::to_string(pr.size) + " but " + std::to_string(live_after) + " keys are resident; ";
                if (single_new_insert && was_full && pr.size != (uint64_t)c.cap)
                    t.insert("C03.size-after");
            }
            else if (model.utm())
            {
                if (keep[0].st.purged)
                {
                    t.insert("C02.utmap-live");
                    d += "size() = " + std::to_string(pr.size) + " right after a purging call, live keys: " + std::to_string(live_after) + "; ";
                    if (pr.size > (uint64_t)live_after + dead_on_arrival)
                        t.insert("C17.implicit-purge");
                    if (op.kind == CLEAN)
                        t.insert("C17.complete");
                }
                else
                {
                    t.insert("C02.ttl-range");
                    d += "size() = " + std::to_string(pr.size) + " outside [live, live + unreaped]; ";
                }
            }
            else
            {
                // tlru / utlru
                int  u    = 0;
                bool any  = false;
                for (auto& o : keep)
                {
                    int lv = o.st.live(), uu = o.st.ucount();
                    if (pr.size >= (uint64_t)lv && pr.size <= (uint64_t)(lv + uu))
                        any = true;
                    u = uu;
                }
                (void)u;
                if (op.kind == CLEAN)
                {
                    t.insert("C17.complete");
                    d += "size() = " + std::to_string(pr.size) + " after clean_expired_values, live keys: " + std::to_string(live_after) + "; ";
                }
                else if (single_new_insert && was_full && pr.size != (uint64_t)c.cap)
                {
                    t.insert("C03.size-after");
                    d += "insert of a new key into a full cache left size() = " + std::to_string(pr.size) + "; ";
                }
                else if (!any)
                {
                    t.insert("C02.ttl-range");
                    d += "size() = " + std::to_string(pr.size) + " outside [live, live + expired-unreaped]; ";
                }
                else
                {
                    // size is within the permitted band but no candidate has that r: r changed in a way the
                    // statements do not allow (e.g. a full insert that dropped two expired entries)
                    if (single_new_insert && was_full)
                        t.insert("C03.multi");
                    else
                        t.insert("C02.ttl-range");
                    d += "size() = " + std::to_string(pr.size) + " is not reachable from the previous size by this operation; ";
                }
            }
        }

        // audit ----------------------------------------------------------------------------------
        if (audit)
        {
            // expected view: use the candidates that explain the result (and size, if any does)
            std::vector<const State*> views;
            {
                // Prefer the explanations whose set of resident keys is the one the audit found (this resolves
                // victim ambiguity: LFU ties, rr); only if there is none is presence itself in question.
                std::vector<const State*> pres;
                for (auto& o : keep)
                {
                    bool same = true;
                    for (size_t k = 0; k < audit->size() && same; ++k)
                        if ((*audit)[k].looked && (((*audit)[k].val.has_value()) != (o.st.k[k].st == LIVE)))
                            same = false;
                    if (same)
                        pres.push_back(&o.st);
                }
                if (!pres.empty())
                    views = pres;
                else
                    for (auto& o : keep)
                        views.push_back(&o.st);
            }
            std::vector<int> lost;
            bool             newkey_missing = false;
            for (size_t k = 0; k < audit->size(); ++k)
            {
                const AuditRow& row = (*audit)[k];
                if (!row.looked)
                    continue;
                bool row_ok = false;
                for (auto* v : views)
                {
                    const KS& e = v->k[k];
                    if (e.st == LIVE ? (row.val && *row.val == e.val && (!kind_has_counts(c.kind) || (row.cnt && *row.cnt == e.count))) : !row.val)
                        row_ok = true;
                }
                if (row_ok)
                    continue;
                const KS& pe = P.k[k];
                // is the key live in every view?
                bool live_all = true, live_none = true;
                for (auto* v : views)
                {
                    if (v->k[k].st == LIVE)
                        live_none = false;
                    else
                        live_all = false;
                }
                if (row.val && live_none)
                {
                    // reported although absent in every explanation
                    if (wrote[k] == 2)
                    {
                        // a key addressed by this very range insert: the specification has it displaced again by a later
                        // element, the implementation kept it - a question of victims inside the range (expanded re-run)
                        t.insert("UNATTRIBUTED.range-presence");
                        d += "key " + std::to_string(k) + " of the range is resident although the specification has it displaced by a later element; ";
                    }
                    else if (pe.st == LIVE && erased[k])
                    {
                        t.insert("C01.ghost");
                        d += "key " + std::to_string(k) + " still found after its erase reported success; ";
                    }
                    else if (pe.st == LIVE && op.kind == CLEAR)
                    {
                        t.insert("C20.empty");
                        t.insert("C01.ghost");
                        d += "key " + std::to_string(k) + " found after clear(); ";
                    }
                    else if (pe.st == LIVE)
                    {
                        // expected to have been evicted by this op: the policy clause below decides
                    }
                    else if (op.kind == INS && obs.b && (int)k == op.k && *row.val == (c.kind == UTSET ? SET_MEMBER : op.v))
                    {
                        // the call itself reported success and the key holds exactly what it wrote: consistent with the
                        // observed result (whose mismatch with the specification is judged above), not a stale entry
                    }
                    else
                        lookup_tags(P, (int)k, row.val, row.cnt, false, 0, t, d, "audit");
                }
                else if (row.val && live_all)
                {
                    // present, but wrong value / count
                    const KS& e = views[0]->k[k];
                    if (*row.val != e.val)
                    {
                        if (op.kind == INS && !obs.b && (int)k == op.k && *row.val == op.v)
                        {
                            t.insert("C09.untouched");
                            t.insert("C19.rejected");
                            d += "a rejected insert changed the value of key " + std::to_string(k) + "; ";
                        }
                        else if (wrote[k] == 2)
                        {
                            // a key addressed by a range insert: whether this element was accepted depends on what the
                            // earlier elements evicted - left to the expanded re-run
                            t.insert("UNATTRIBUTED.range-value");
                            d += "after a range insert key " + std::to_string(k) + " holds value " + std::to_string(*row.val) + ", specification " + std::to_string(e.val) + "; ";
                        }
                        else if (wrote[k] && pe.st == LIVE && *row.val == pe.val)
                        {
                            t.insert("C09.replace");
                            t.insert("C01.value");
                            d += "a successful update of key " + std::to_string(k) + " did not replace its value; ";
                        }
                        else
                        {
                            t.insert(e.inferred || pe.inferred ? "UNATTRIBUTED.range-value" : "C01.value");
                            d += "audit: key " + std::to_string(k) + " holds value " + std::to_string(*row.val) + ", latest write was " + std::to_string(e.val) + "; ";
                        }
                    }
                    else if (kind_has_counts(c.kind))
                    {
                        bool agedop = op.kind == AGE || (keep[0].aged > 0);
                        if (c.kind == LFUDA)
                        {
                            t.insert("C14.counts");
                            if (!agedop)
                                t.insert("C11.count");
                        }
                        else
                            t.insert("C11.count");
                        if (is_noeffect && op.peek && sighted((int)k))
                            t.insert("C19.peek");
                        d += "audit: key " + std::to_string(k) + " use count " + optstr(row.cnt) + ", specification " + std::to_string(e.count) + "; ";
                    }
                }
                else if (!row.val && live_all)
                {
                    if (wrote[k] == 1 && pe.st != LIVE)
                        newkey_missing = true;
                    lost.push_back((int)k);
                }
                else if (!row.val)
                {
                    // live in some explanations only (victim ambiguity): counted as lost for the policy analysis
                    if (pe.st == LIVE)
                        lost.push_back((int)k);
                }
            }

            // losses -----------------------------------------------------------------------------
            // keys live before the op (and not expired at now) that the audit no longer finds
            std::vector<int> L;
            for (size_t k = 0; k < audit->size(); ++k)
            {
                const AuditRow& row = (*audit)[k];
                if (!row.looked || row.val)
                    continue;
                if (P.k[k].st == LIVE && !erased[k] && op.kind != CLEAR && !doa[k])
                    L.push_back((int)k);
            }
            if (single_new_insert && newkey_missing && !(model.ttl() && dead_on_arrival))
            {
                t.insert("C03.collateral");
                if (c.kind == RR)
                    t.insert("C15.victim-valid");
                if (model.ttl())
                    t.insert("C05.early");
                d += "the key just inserted (" + std::to_string(op.k) + ") is not found; ";
            }
            if (!L.empty() && (op.kind == INSR || op.kind == INSI) && t.count("C09.count"))
            {
                // the range lost prior residents it had room for: its elements did influence one another after all, so the
                // count is a consequence of that loss, not an untruthful report
                t.erase("C09.count");
                t.erase("C18.count");
                t.insert("UNATTRIBUTED.range-result");
            }
            bool all_sighted = true;
            for (int k : L)
                if (!sighted(k))
                    all_sighted = false;
            if (!L.empty() && !all_sighted && kind_has_capacity(c.kind))
            {
                t.insert("UNATTRIBUTED.late-loss");
                d += "live key(s) missing that were not sighted right before this op; ";
            }
            else if (!L.empty())
            {
                std::string ls;
                for (int k : L)
                    ls += std::to_string(k) + " ";
                if (single_new_insert && was_full)
                {
                    if (model.ttllru() && r_pre > 0)
                    {
                        t.insert("C16.live-lost");
                        d += "full insert with " + std::to_string(r_pre) + " expired resident(s) lost live key(s) " + ls + "; ";
                        if (L.size() > 1)
                            t.insert("C03.multi");
                    }
                    else if (L.size() > 1)
                    {
                        t.insert("C03.multi");
                        if (c.kind == RR)
                            t.insert("C15.victim-valid");
                        d += "full insert removed " + std::to_string(L.size()) + " residents: " + ls + "; ";
                    }
                    else
                    {
                        // exactly one victim: is it one the policy permits?
                        Cand tmp;
                        tmp.st = P;
                        if (c.kind == LFUDA)
                        {
                            int64_t tick = c.tick_ms * 1000000LL;
                            for (auto& e : tmp.st.k)
                                if (e.st == LIVE && e.touch + tick < now)
                                {
                                    e.count = (e.count * (uint64_t)c.ratio_q) / 4;
                                    e.touch = now;
                                }
                        }
                        std::vector<int> vs;
                        model.victims_of(tmp.st, vs);
                        bool ok = false;
                        for (int v : vs)
                            if (v == L[0])
                                ok = true;
                        if (!ok && victim_clause())
                        {
                            t.insert(victim_clause());
                            if (c.kind == LFUDA && model.due_count(P, now) == 0)
                                t.insert("C11.victim-min");
                            d += "full insert evicted key " + ls + "but the policy selects " + (vs.empty() ? std::string("?") : std::to_string(vs[0])) + "; ";
                        }
                    }
                }
                else if (op.kind == ADV || op.kind == SET)
                {
                    if (model.ttl())
                    {
                        bool moved = false;
                        for (int k : L)
                            moved = moved || P.k[(size_t)k].moved;
                        t.insert(moved ? "C05.restart" : "C05.early");
                        t.insert("C05.early");
                    }
                    else
                        t.insert("C03.collateral");
                    d += "key(s) " + ls + "vanished while only the clock moved; ";
                }
                else if ((op.kind == INSR || op.kind == INSI))
                {
                    // a range insert may evict; more losses than new keys could displace is a retention failure
                    size_t newk = 0;
                    std::set<int> seen;
                    for (auto& it : op.items)
                        if (P.k[(size_t)it.k].st != LIVE && seen.insert(it.k).second)
                            ++newk;
                    size_t freeslots = kind_has_capacity(c.kind) ? (size_t)std::max(0, c.cap - live_pre - (model.ttl() ? r_pre : 0)) : (size_t)1 << 30;
                    size_t allowed   = newk > freeslots ? newk - freeslots : 0;
                    // range elements can also displace each other, so 'allowed' is an upper bound on losses of prior residents
                    // Each element removes at most one resident, and only when it adds a new key to a full cache.
                    // Which residents a *range* may displace depends on intermediate states nobody observed, so
                    // only the bound that holds for every policy is asserted here; finer attribution is left to the
                    // dense re-run with the range expanded into singles (seq_driver) and to the C18 twin.
                    if (!kind_has_capacity(c.kind))
                    {
                        t.insert("C03.noevict");
                        d += "range insert into a container that never evicts lost " + ls + "; ";
                    }
                    else if (L.size() > allowed)
                    {
                        t.insert("C03.multi");
                        d += "range insert lost " + std::to_string(L.size()) + " prior residents (" + ls + ") but adds at most " + std::to_string(newk) +
                             " new key(s) with " + std::to_string(freeslots) + " free slot(s); ";
                    }
                    else
                    {
                        t.insert("UNATTRIBUTED.range-loss");
                        d += "range insert lost prior resident(s) " + ls + "that no explanation loses; ";
                    }
                }
                else
                {
                    bool wrote_lost = false, moved = false;
                    for (int k : L)
                    {
                        if (wrote[(size_t)k])
                            wrote_lost = true;
                        moved = moved || P.k[(size_t)k].moved;
                    }
                    if (wrote_lost && model.ttl())
                        t.insert("C05.restart");
                    else
                    {
                        t.insert("C03.collateral");
                        if (!kind_has_capacity(c.kind))
                            t.insert("C03.noevict");
                        if (model.ttl())
                            t.insert(moved ? "C05.restart" : "C05.early");
                    }
                    if (is_noeffect)
                        t.insert("C19.loss");
                    d += std::string(opk_names[op.kind]) + " removed live key(s) " + ls + "; ";
                }
            }
            (void)lost;
        }
        if (t.empty())
            t.insert("UNATTRIBUTED.state");
    }
};

} // namespace vh
