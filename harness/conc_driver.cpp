// Concurrency driver (C06).
//   --mode free   real threads, barrier start, delay injection at the lock hooks, recorded histories
//   --mode sched  cooperative scheduler over the lock hooks: one thread runs at a time, the scheduler
//                 decides at every before-lock (and optionally after-unlock) point who runs next;
//                 schedules are enumerated depth-first (stateless re-execution) or sampled at random
// Every execution is judged by the linearizability checker (lin.hpp) against the executable
// specification, followed by a sequential audit (and deadline probing for TTL containers).
#include "gen.hpp"
#include "iface.hpp"
#include "lin.hpp"

#include "cappuccino/lock.hpp"

#include <atomic>
#include <chrono>
#include <condition_variable>
#include <cinttypes>
#include <fstream>
#include <iostream>
#include <memory>
#include <mutex>
#include <set>
#include <sstream>
#include <thread>
#include <unordered_set>

#include <sched.h>
#include <unistd.h>

namespace vclock
{
int64_t now();
void    set(int64_t);
void    advance(int64_t);
void    selftest();
} // namespace vclock
namespace vrandom
{
void seed(uint64_t);
}
namespace vh
{
uint64_t    tracked_live();
std::string tracked_error();
void        tracked_reset();
void        tracked_set_copy_hook(void (*)());
} // namespace vh

using namespace vh;
namespace cv = cappuccino::verif;

static const int64_t T0 = 1000000000LL;

// ---------------------------------------------------------------------------------------------
// hook plumbing
enum HookMode
{
    HM_OFF = 0,
    HM_DELAY,
    HM_SCHED
};
static std::atomic<int>      g_hook_mode{HM_OFF};
static thread_local int      tl_tid = -1;
static thread_local uint64_t tl_rng = 0;
// lock acquisition log (free mode): thread ids in the order they acquired the container lock
static std::atomic<uint32_t> g_acq_n{0};
static uint8_t               g_acq[4096];

static inline uint64_t tl_next()
{
    uint64_t z = (tl_rng += 0x9E3779B97F4A7C15ULL);
    z          = (z ^ (z >> 30)) * 0xBF58476D1CE4E5B9ULL;
    z          = (z ^ (z >> 27)) * 0x94D049BB133111EBULL;
    return z ^ (z >> 31);
}

// ---- cooperative scheduler -------------------------------------------------------------------
struct Sched
{
    std::mutex              m;
    std::condition_variable cvar;
    int                     turn{-1};
    std::vector<int>        status; // 0 not started, 1 waiting at a point, 2 running, 3 finished
    bool                    after_unlock_points{false};
    bool                    hang{false};
    void                    reset(int n, bool aup)
    {
        turn = -1;
        status.assign((size_t)n, 0);
        after_unlock_points = aup;
        hang                = false;
    }
    void yield_point()
    {
        int                          tid = tl_tid;
        std::unique_lock<std::mutex> lk(m);
        status[(size_t)tid] = 1;
        turn                = -1;
        cvar.notify_all();
        cvar.wait(lk, [&] { return turn == tid; });
        status[(size_t)tid] = 2;
    }
    void finish()
    {
        int                          tid = tl_tid;
        std::unique_lock<std::mutex> lk(m);
        status[(size_t)tid] = 3;
        turn                = -1;
        cvar.notify_all();
    }
};
static Sched g_sched;

static void lock_hook(cv::point p, const void*)
{
    int mode = g_hook_mode.load(std::memory_order_relaxed);
    if (mode == HM_OFF || tl_tid < 0)
        return;
    if (mode == HM_DELAY)
    {
        if (p == cv::point::after_lock)
        {
            uint32_t i = g_acq_n.fetch_add(1, std::memory_order_relaxed);
            if (i < sizeof g_acq)
                g_acq[i] = (uint8_t)tl_tid;
            return;
        }
        // delays only outside the critical section: before lock() and after unlock()
        uint64_t r = tl_next();
        switch (r & 7)
        {
            case 0:
                sched_yield();
                break;
            case 1:
            case 2: {
                unsigned spins = (unsigned)((r >> 8) % 3000);
                for (volatile unsigned i = 0; i < spins; ++i) {}
                break;
            }
            case 3:
                if (((r >> 8) & 15) == 0)
                    std::this_thread::sleep_for(std::chrono::microseconds(1 + ((r >> 16) % 50)));
                break;
            default:
                break;
        }
        return;
    }
    // HM_SCHED
    if (p == cv::point::before_lock || (p == cv::point::after_unlock && g_sched.after_unlock_points))
        g_sched.yield_point();
}

// Pause inside the copy constructor of the harness's heap-owning value type (free-running rounds only): see values.hpp.
static void value_copy_hook()
{
    if (g_hook_mode.load(std::memory_order_relaxed) != HM_DELAY || tl_tid < 0)
        return;
    uint64_t r = tl_next();
    switch (r & 3)
    {
        case 0:
            sched_yield();
            break;
        case 1: {
            unsigned spins = (unsigned)((r >> 8) % 4000);
            for (volatile unsigned i = 0; i < spins; ++i) {}
            break;
        }
        default:
            break;
    }
}

// ---------------------------------------------------------------------------------------------
struct RoundSpec
{
    Cfg                          cfg;
    std::vector<Op>              setup;
    std::vector<std::vector<Op>> programs;
};

struct RoundOutcome
{
    bool                     violated{false};
    std::vector<std::string> tags;
    std::string              detail;
    bool                     inconclusive{false};
    bool                     setup_violation{false};
    std::vector<std::string> lines; // witness
    uint64_t                 nodes{0};
    size_t                   finals{0};
    bool                     overlapped{false};
    bool                     range_overlap{false};
    uint64_t                 acq_hash{0};
};

static Op audit_op(int kind, int k)
{
    Op op;
    op.k = k;
    if (kind_has_counts(kind))
    {
        op.kind = FUC;
        op.peek = true;
    }
    else
    {
        op.kind = FND;
        op.peek = kind_has_peek(kind);
    }
    return op;
}

static void run_audit(ICache* c, const Cfg& cfg, std::vector<AuditRow>& rows)
{
    rows.assign((size_t)cfg.universe, AuditRow{});
    Res r;
    for (int k = 0; k < cfg.universe; ++k)
    {
        Op op = audit_op(cfg.kind, k);
        c->apply(op, r);
        rows[(size_t)k].looked = true;
        rows[(size_t)k].val    = r.vals.empty() ? std::nullopt : r.vals[0];
        rows[(size_t)k].cnt    = r.cnt;
    }
}
static std::string audit_to_text(const std::vector<AuditRow>& rows)
{
    std::string s = "{";
    for (size_t k = 0; k < rows.size(); ++k)
    {
        if (!rows[k].looked)
            continue;
        if (s.size() > 1)
            s += ' ';
        s += std::to_string(k) + ":" + (rows[k].val ? std::to_string(*rows[k].val) : std::string("-"));
        if (rows[k].cnt)
            s += "#" + std::to_string(*rows[k].cnt);
    }
    return s + "}";
}

// candidates -> candidates after a sequential audit (peek lookups of every key) + size probe
static bool audit_candidates(const Model& m, std::vector<State>& cands, const std::vector<AuditRow>& rows, const Probe& pr)
{
    std::vector<State> keep;
    for (auto& s : cands)
    {
        bool ok = true;
        for (size_t k = 0; k < rows.size() && ok; ++k)
        {
            const KS& e = s.k[k];
            if (e.st == LIVE)
            {
                if (!rows[k].val || *rows[k].val != e.val)
                    ok = false;
                else if (kind_has_counts(m.cfg.kind) && (!rows[k].cnt || *rows[k].cnt != e.count))
                    ok = false;
            }
            else if (rows[k].val)
                ok = false;
        }
        if (!ok)
            continue;
        if (kind_has_capacity(m.cfg.kind) && pr.cap != (uint64_t)m.cfg.cap)
            continue;
        if (pr.empty != (pr.size == 0))
            continue;
        int live = s.live();
        if (!m.ttl())
        {
            if (pr.size == (uint64_t)live)
                keep.push_back(s);
            continue;
        }
        // the audit looked at every key, expired ones included: any number of them may have been reaped
        if (m.utm())
        {
            State t = s;
            Model::clear_u(t);
            t.purged = true;
            if (pr.size == (uint64_t)live)
                keep.push_back(t);
            continue;
        }
        if (pr.size >= (uint64_t)live && pr.size <= (uint64_t)(live + s.r))
        {
            State t = s;
            t.r     = (int)(pr.size - (uint64_t)live);
            if (t.r == 0)
                Model::clear_u(t);
            keep.push_back(t);
        }
    }
    cands.swap(keep);
    return !cands.empty();
}

struct Stats
{
    uint64_t rounds{0}, histories{0}, hist_ops{0}, nodes{0}, overlapped{0}, range_overlap{0}, inconclusive{0}, setup_viol{0}, violations{0};
    uint64_t schedules{0}, programs{0}, programs_exhaustive{0}, max_sched_per_program{0}, probes{0}, hangs{0};
    std::unordered_set<uint64_t> acq_orders;
    std::unordered_set<uint64_t> distinct_histories;
    uint64_t                     multi_final{0};
};

class Engine
{
public:
    int         kind;
    std::string flavour_note;
    Stats       st;
    std::vector<RoundOutcome> viols;
    std::vector<std::vector<std::string>> samples;
    Counters    ctr;

    // Builds the container, runs the setup prefix sequentially under the monitor; returns candidates.
    bool do_setup(const RoundSpec& rs, std::unique_ptr<ICache>& cache, Monitor& mon, RoundOutcome& ro)
    {
        vclock::set(T0);
        vrandom::seed(rs.cfg.rseed);
        cache.reset(make_cache(rs.cfg));
        Res                   res;
        Probe                 pr;
        std::vector<AuditRow> rows;
        for (size_t i = 0; i < rs.setup.size(); ++i)
        {
            const Op& op = rs.setup[i];
            res.clear();
            if (op.kind == ADV)
                vclock::advance(op.ttl);
            else if (op.kind == SET)
            {
                if (op.ttl > vclock::now())
                    vclock::set(op.ttl);
            }
            else
                cache->apply(op, res);
            cache->probe(pr);
            Violation v;
            if (!mon.step(op, res, pr, nullptr, vclock::now(), v))
            {
                ro.setup_violation = true;
                ro.tags            = v.tags;
                ro.detail          = "during sequential set-up: " + v.detail;
                return false;
            }
            if (mon.inconclusive)
            {
                ro.inconclusive = true;
                return false;
            }
            ro.lines.push_back("SETUP " + op_to_text(op) + "  -> " + res_to_text(op, res));
        }
        return true;
    }

    // Judges one executed history.
    void judge(const RoundSpec& rs, ICache* cache, Monitor& mon, std::vector<HOp>& hist, RoundOutcome& ro)
    {
        const int64_t now = vclock::now();
        for (auto& e : hist)
            ro.lines.push_back(hop_to_text(e));
        // overlap statistics
        for (size_t i = 0; i < hist.size(); ++i)
            for (size_t j = i + 1; j < hist.size(); ++j)
                if (hist[i].thread != hist[j].thread && hist[i].inv < hist[j].resp && hist[j].inv < hist[i].resp)
                {
                    ro.overlapped = true;
                    if (op_is_range(hist[i].op.kind) || op_is_range(hist[j].op.kind))
                        ro.range_overlap = true;
                }
        LinChecker lc(mon.model, hist, now);
        lc.run(mon.cands);
        ro.nodes  = lc.out.nodes;
        ro.finals = lc.out.finals.size();
        if (lc.out.capped)
        {
            ro.inconclusive = true;
            return;
        }
        if (lc.out.finals.empty())
        {
            ro.violated = true;
            ro.tags     = {"C06.lin"};
            ro.detail   = "no sequential order of the concurrent operations, consistent with their real-time order, returns these results";
            return;
        }
        // quiescent audit (+ deadline probing for TTL containers)
        std::vector<State>    cands = lc.out.finals;
        std::vector<AuditRow> rows;
        Probe                 pr;
        run_audit(cache, rs.cfg, rows);
        cache->probe(pr);
        ro.lines.push_back("AUDIT t=" + std::to_string(now - T0) + " " + audit_to_text(rows) + " size=" + std::to_string(pr.size));
        ++st.probes;
        if (!audit_candidates(mon.model, cands, rows, pr))
        {
            ro.violated = true;
            ro.tags     = {"C06.state"};
            ro.detail   = "the state found after the threads joined is not the outcome of any linearization of the history";
            return;
        }
        if (mon.model.ttl())
        {
            // the TTL an insert really used becomes observable by probing each candidate deadline
            std::set<int64_t> dls;
            for (auto& s : cands)
                for (auto& e : s.k)
                    if (e.st == LIVE && e.deadline > now && e.deadline < now + 3000000000000LL)
                        dls.insert(e.deadline);
            int nprobe = 0;
            for (int64_t d : dls)
            {
                if (++nprobe > 8)
                    break;
                for (int64_t t : {d - 1, d})
                {
                    if (t <= vclock::now())
                        continue;
                    vclock::set(t);
                    std::vector<State> nxt;
                    for (auto& s : cands)
                    {
                        State x = s;
                        mon.model.expire(x, t);
                        nxt.push_back(std::move(x));
                    }
                    run_audit(cache, rs.cfg, rows);
                    cache->probe(pr);
                    ++st.probes;
                    ro.lines.push_back("AUDIT t=" + std::to_string(t - T0) + " " + audit_to_text(rows) + " size=" + std::to_string(pr.size));
                    if (!audit_candidates(mon.model, nxt, rows, pr))
                    {
                        ro.violated = true;
                        ro.tags     = {"C06.state"};
                        ro.detail   = "deadline probing after the round: no linearization explains which entries are alive at t=" + std::to_string(t - T0);
                        return;
                    }
                    cands.swap(nxt);
                }
            }
        }
        if (lc.out.finals.size() > 1)
            ++st.multi_final;
    }

    void account(const RoundSpec& rs, RoundOutcome& ro, const std::string& header)
    {
        ++st.rounds;
        if (ro.setup_violation)
        {
            ++st.setup_viol;
            ro.lines.insert(ro.lines.begin(), header);
            if (viols.size() < 10)
                viols.push_back(ro);
            return;
        }
        if (ro.inconclusive)
        {
            ++st.inconclusive;
            return;
        }
        ++st.histories;
        st.nodes += ro.nodes;
        if (ro.overlapped)
            ++st.overlapped;
        if (ro.range_overlap)
            ++st.range_overlap;
        if (ro.acq_hash)
            st.acq_orders.insert(ro.acq_hash);
        uint64_t hh = hash_str(cfg_to_text(rs.cfg));
        for (auto& l : ro.lines)
            if (l.compare(0, 7, "CHOICES") != 0)
                hh = mix(hh, hash_str(l));
        st.distinct_histories.insert(hh);
        if (ro.violated)
        {
            ++st.violations;
            ro.lines.insert(ro.lines.begin(), header);
            if (viols.size() < 10)
                viols.push_back(ro);
        }
        else if (samples.size() < 2 && ro.overlapped)
        {
            std::vector<std::string> l = ro.lines;
            l.insert(l.begin(), header);
            samples.push_back(l);
        }
    }

    // ---- program generation ------------------------------------------------------------------
    RoundSpec make_round(uint64_t seed, int nthreads_lo, int nthreads_hi, int ops_lo, int ops_hi, bool typeset1, bool long_finds = false)
    {
        RoundSpec rs;
        Generator gen(seed);
        Rng&      rng = gen.rng;
        Cfg&      c   = rs.cfg;
        c.kind        = kind;
        c.typeset     = (typeset1 && rng.chance(1, 3)) ? 1 : 0;
        c.ts          = true;
        c.universe    = rng.range(3, 6);
        c.cap         = kind_has_capacity(kind) ? (rng.chance(1, 4) ? c.universe : rng.range(2, 4)) : 0;
        c.mlf         = 1.0f;
        c.ttl_ms      = rng.pick(std::vector<int64_t>{0, 1, 2, 5, 10, 100});
        if (c.ttl_ms == 0 && (kind == UTMAP || kind == UTSET) && !rng.chance(1, 8))
            c.ttl_ms = 5; // TTL 0 on ut_map / ut_set is the known sequential finding D5: keep it rare here
        c.tick_ms     = rng.pick(std::vector<int64_t>{1, 5});
        c.ratio_q     = rng.range(0, 4);
        c.rseed       = rng.next();
        if (((c.rseed >> 40) & 3) == 0)
            c.mlf = Generator::lf_choices()[(size_t)((c.rseed >> 44) % Generator::lf_choices().size())];
        CasePlan plan;
        plan.cfg     = c;
        plan.profile = rng.pick(std::vector<int>{P_CHURN, P_TTLEDGE, P_SHAPE, P_RANGES, P_AGING});
        gen.plan     = plan;
        // set-up prefix generated against a scratch model (no implementation involved: the real run
        // re-executes it under the monitor)
        Model              m(c);
        std::vector<State> cs{m.initial()};
        int64_t            t      = T0;
        int                nsetup = rng.range(0, 14);
        for (int i = 0; i < nsetup; ++i)
        {
            Op op = gen.next(m, cs[0], t);
            if (op.kind == CLEAR && rng.chance(2, 3))
                continue;
            if (op.kind == ADV)
                t += op.ttl;
            else if (op.kind == SET)
                t = std::max(t, op.ttl);
            rs.setup.push_back(op);
            // advance the scratch model along its first outcome (only used to aim the generator)
            std::vector<Outcome> outs;
            m.step(cs[0], op, t, outs);
            if (!outs.empty())
                cs[0] = outs[0].st;
        }
        int nthreads = rng.range(nthreads_lo, nthreads_hi);
        int budget   = 12;
        for (int th = 0; th < nthreads; ++th)
        {
            std::vector<Op> prog;
            int             n = rng.range(ops_lo, ops_hi);
            for (int i = 0; i < n && budget > 0; ++i)
            {
                Op op;
                int w = (int)rng.below(100);
                if (w < 12)
                {
                    op.kind = rng.pick(std::vector<int>{SIZE, EMPTY, SIZE, kind_has_capacity(kind) ? CAP : SIZE});
                }
                else if (w < 20 && kind_has_clean(kind))
                    op.kind = CLEAN;
                else if (w < 20 && kind == LFUDA)
                    op.kind = AGE;
                else if (w < 24 && kind_has_clear(kind))
                    op.kind = CLEAR;
                else if (w < 30 && kind == UTLRU)
                {
                    op.kind = SETTTL;
                    op.ttl  = rng.pick(std::vector<int64_t>{0, 1, 5, 50});
                }
                else
                {
                    gen.plan.profile = rng.chance(1, 2) ? P_RANGES : P_CHURN;
                    do
                    {
                        op = gen.next(m, cs[0], t);
                    } while (op.kind == ADV || op.kind == SET || op.kind == CLEAR);
                    if (op_is_range(op.kind))
                    {
                        while (op.items.size() > 4)
                            op.items.pop_back();
                        // a lookup range may be long (repeated keys): the longer the walk, the likelier another thread's write
                        // lands inside it if the walk is not atomic; length costs the checker nothing (one atomic step)
                        if (long_finds && (op.kind == FNDR || op.kind == FNDF) && rng.chance(1, 3))
                        {
                            int want = rng.range(6, 12);
                            while ((int)op.items.size() < want)
                            {
                                Item it;
                                it.k = (int)rng.below((uint64_t)c.universe);
                                op.items.push_back(it);
                            }
                        }
                        if (op.items.size() < 2 && rng.chance(3, 4))
                        {
                            // ranges of 2-4 elements are where atomicity matters
                            while (op.items.size() < 2)
                            {
                                Item it;
                                it.k   = (int)rng.below((uint64_t)c.universe);
                                it.v   = gen.fresh_vid();
                                it.ttl = gen.pick_ttl();
                                op.items.push_back(it);
                            }
                        }
                    }
                }
                prog.push_back(op);
                --budget;
            }
            if (!prog.empty())
                rs.programs.push_back(prog);
        }
        return rs;
    }

    static std::string round_header(const RoundSpec& rs, const std::string& mode, uint64_t seed, const std::string& extra)
    {
        std::string s = cfg_to_text(rs.cfg) + " # mode=" + mode + " round_seed=" + std::to_string(seed) + extra;
        return s;
    }

    // ---- free-running round -------------------------------------------------------------------
    void free_round(uint64_t seed, bool typeset1)
    {
        RoundSpec               rs = make_round(seed, 2, 4, 1, 4, typeset1, true);
        RoundOutcome            ro;
        std::unique_ptr<ICache> cache;
        Monitor                 mon(rs.cfg, &ctr);
        tracked_reset();
        if (rs.programs.size() < 2 || !do_setup(rs, cache, mon, ro))
        {
            if (rs.programs.size() >= 2)
                account(rs, ro, round_header(rs, "free", seed, ""));
            if (cache)
            {
                cache->destroy_check();
                cache.reset();
            }
            return;
        }
        size_t                   nt = rs.programs.size();
        std::vector<std::vector<HOp>> logs(nt);
        std::atomic<uint64_t>    clock{1};
        std::atomic<int>         ready{0};
        std::atomic<bool>        go{false};
        g_acq_n.store(0);
        g_hook_mode.store(HM_DELAY);
        tracked_set_copy_hook(&value_copy_hook);
        std::vector<std::thread> th;
        for (size_t t = 0; t < nt; ++t)
        {
            th.emplace_back([&, t]() {
                tl_tid = (int)t;
                tl_rng = mix(seed, 1000 + t);
                auto& lg = logs[t];
                lg.resize(rs.programs[t].size());
                ready.fetch_add(1);
                while (!go.load(std::memory_order_acquire)) {}
                for (size_t i = 0; i < rs.programs[t].size(); ++i)
                {
                    HOp& e   = lg[i];
                    e.op     = rs.programs[t][i];
                    e.thread = (int)t;
                    e.index  = (int)i;
                    e.inv    = clock.fetch_add(1, std::memory_order_seq_cst);
                    cache->apply(e.op, e.res);
                    e.resp = clock.fetch_add(1, std::memory_order_seq_cst);
                }
                tl_tid = -1;
            });
        }
        while (ready.load() < (int)nt) {}
        go.store(true, std::memory_order_release);
        for (auto& t : th)
            t.join();
        g_hook_mode.store(HM_OFF);
        std::vector<HOp> hist;
        for (auto& l : logs)
            for (auto& e : l)
                hist.push_back(e);
        st.hist_ops += hist.size();
        uint32_t na = std::min<uint32_t>(g_acq_n.load(), sizeof g_acq);
        uint64_t ah = 1469598103934665603ULL;
        for (uint32_t i = 0; i < na; ++i)
            ah = (ah ^ g_acq[i]) * 1099511628211ULL;
        ro.acq_hash = mix(ah, hash_str(cfg_to_text(rs.cfg)) ^ seed);
        judge(rs, cache.get(), mon, hist, ro);
        std::string derr = cache->destroy_check();
        cache.reset();
        if (!ro.violated && derr.empty() && tracked_live() != 0)
            derr = "Tracked: value object(s) never destroyed";
        if (!ro.violated && !derr.empty())
        {
            ro.violated = true;
            ro.tags     = {"C06.destroy"};
            ro.detail   = derr;
        }
        account(rs, ro, round_header(rs, "free", seed, ""));
    }

    // ---- controlled schedules -----------------------------------------------------------------
    // Executes the program once under the choice sequence 'prefix' (choices beyond it: first option,
    // or random if rnd != nullptr).  Returns the options / choices actually made.
    bool sched_exec(const RoundSpec& rs, const std::vector<int>& prefix, Rng* rnd, bool aup, int preempt_bound, std::vector<int>& made,
                    std::vector<int>& options, RoundOutcome& ro)
    {
        std::unique_ptr<ICache> cache;
        Monitor                 mon(rs.cfg, &ctr);
        tracked_reset();
        if (!do_setup(rs, cache, mon, ro))
        {
            if (cache)
            {
                cache->destroy_check();
                cache.reset();
            }
            return false;
        }
        size_t nt = rs.programs.size();
        std::vector<std::vector<HOp>> logs(nt);
        uint64_t                      clock = 1;
        g_sched.reset((int)nt, aup);
        g_hook_mode.store(HM_SCHED);
        std::vector<std::thread> th;
        for (size_t t = 0; t < nt; ++t)
        {
            th.emplace_back([&, t]() {
                tl_tid = (int)t;
                auto& lg = logs[t];
                lg.resize(rs.programs[t].size());
                g_sched.yield_point(); // start under the scheduler's control
                for (size_t i = 0; i < rs.programs[t].size(); ++i)
                {
                    HOp& e   = lg[i];
                    e.op     = rs.programs[t][i];
                    e.thread = (int)t;
                    e.index  = (int)i;
                    e.inv    = clock++;
                    cache->apply(e.op, e.res);
                    e.resp = clock++;
                }
                g_sched.finish();
                tl_tid = -1;
            });
        }
        // scheduler loop
        made.clear();
        options.clear();
        int  prev = -1, preemptions = 0;
        bool hang = false;
        for (;;)
        {
            std::unique_lock<std::mutex> lk(g_sched.m);
            bool ok = g_sched.cvar.wait_for(lk, std::chrono::seconds(10), [&] {
                if (g_sched.turn != -1)
                    return false;
                for (int s : g_sched.status)
                    if (s == 0 || s == 2)
                        return false;
                return true;
            });
            if (!ok)
            {
                hang = true;
                break;
            }
            std::vector<int> runnable;
            if (prev >= 0 && g_sched.status[(size_t)prev] == 1)
                runnable.push_back(prev); // option 0: keep running the same thread (no preemption)
            for (size_t t = 0; t < nt; ++t)
                if (g_sched.status[t] == 1 && (int)t != prev)
                    runnable.push_back((int)t);
            if (runnable.empty())
                break;
            bool prev_runnable = prev >= 0 && g_sched.status[(size_t)prev] == 1;
            if (prev_runnable && preempt_bound >= 0 && preemptions >= preempt_bound)
                runnable.resize(1);
            size_t idx = made.size();
            int    c   = 0;
            if (idx < prefix.size())
                c = prefix[idx];
            else if (rnd)
                c = (int)rnd->below(runnable.size());
            if (c >= (int)runnable.size())
                c = 0;
            made.push_back(c);
            options.push_back((int)runnable.size());
            if (prev_runnable && runnable[(size_t)c] != prev)
                ++preemptions;
            prev         = runnable[(size_t)c];
            g_sched.turn = prev;
            g_sched.cvar.notify_all();
        }
        if (hang)
        {
            // a thread never came back to a schedule point: it is blocked inside the library
            ro.violated = true;
            ro.tags     = {"C06.hang"};
            ro.detail   = "a thread blocked inside a call and never reached the next schedule point (self-deadlock on the container lock?)";
            std::string cs;
            for (int c : made)
                cs += std::to_string(c) + " ";
            ro.lines.push_back("CHOICES " + cs);
            ++st.hangs;
            // the blocked threads cannot be joined: report and leave
            report_and_exit_on_hang(rs, ro);
        }
        for (auto& t : th)
            t.join();
        g_hook_mode.store(HM_OFF);
        std::vector<HOp> hist;
        for (auto& l : logs)
            for (auto& e : l)
                hist.push_back(e);
        st.hist_ops += hist.size();
        judge(rs, cache.get(), mon, hist, ro);
        std::string cs;
        for (int c : made)
            cs += std::to_string(c) + " ";
        ro.lines.push_back("CHOICES " + cs + " POINTS " + (aup ? "2" : "1"));
        std::string derr = cache->destroy_check();
        cache.reset();
        if (!ro.violated && !derr.empty())
        {
            ro.violated = true;
            ro.tags     = {"C06.destroy"};
            ro.detail   = derr;
        }
        return true;
    }

    std::string out_path;
    void        report_and_exit_on_hang(const RoundSpec& rs, RoundOutcome& ro)
    {
        ro.lines.insert(ro.lines.begin(), round_header(rs, "sched", 0, ""));
        for (size_t t = 0; t < rs.programs.size(); ++t)
            for (auto& op : rs.programs[t])
                ro.lines.push_back("T" + std::to_string(t) + " " + op_to_text(op));
        viols.push_back(ro);
        ++st.violations;
        write_report();
        std::fflush(nullptr);
        _exit(0);
    }

    void sched_program(uint64_t seed, bool exhaustive_2t, int max_schedules, bool aup)
    {
        int       nthreads = exhaustive_2t ? 2 : 3;
        RoundSpec rs       = make_round(seed, nthreads, nthreads, exhaustive_2t ? 1 : 1, exhaustive_2t ? 3 : 2, false);
        if (rs.programs.size() < 2)
            return;
        ++st.programs;
        std::vector<int> prefix, made, options;
        uint64_t         n         = 0;
        bool             completed = false;
        Rng              rnd(mix(seed, 99));
        int              bound = exhaustive_2t ? -1 : 3;
        std::string      hdr   = round_header(rs, exhaustive_2t ? "sched2" : "sched3", seed, std::string(" points=") + (aup ? "2" : "1"));
        for (;;)
        {
            RoundOutcome ro;
            if (!sched_exec(rs, prefix, nullptr, aup, bound, made, options, ro))
            {
                account(rs, ro, hdr);
                return;
            }
            ++n;
            ++st.schedules;
            account(rs, ro, hdr);
            if (ro.violated && viols.size() >= 10)
                break;
            // next schedule in depth-first order
            int i = (int)made.size() - 1;
            while (i >= 0 && made[(size_t)i] + 1 >= options[(size_t)i])
                --i;
            if (i < 0)
            {
                completed = true;
                break;
            }
            prefix.assign(made.begin(), made.begin() + i + 1);
            ++prefix[(size_t)i];
            if ((int)n >= max_schedules)
                break;
        }
        if (completed)
            ++st.programs_exhaustive;
        if (n > st.max_sched_per_program)
            st.max_sched_per_program = n;
    }

    void sched_random_program(uint64_t seed, int nsched)
    {
        RoundSpec rs = make_round(seed, 3, 4, 2, 3, false);
        if (rs.programs.size() < 2)
            return;
        ++st.programs;
        std::string hdr = round_header(rs, "schedr", seed, " points=2");
        Rng         rnd(mix(seed, 4242));
        for (int i = 0; i < nsched; ++i)
        {
            std::vector<int> prefix, made, options;
            RoundOutcome     ro;
            if (!sched_exec(rs, prefix, &rnd, true, -1, made, options, ro))
            {
                account(rs, ro, hdr);
                return;
            }
            ++st.schedules;
            account(rs, ro, hdr);
        }
    }

    void write_report()
    {
        std::ostringstream os;
        os << "{\"kind\":\"" << kind_names[kind] << "\",\"rounds\":" << st.rounds << ",\"histories\":" << st.histories << ",\"hist_ops\":" << st.hist_ops
           << ",\"nodes\":" << st.nodes << ",\"overlapped\":" << st.overlapped << ",\"range_overlap\":" << st.range_overlap
           << ",\"inconclusive\":" << st.inconclusive << ",\"setup_violations\":" << st.setup_viol << ",\"violations\":" << st.violations
           << ",\"schedules\":" << st.schedules << ",\"programs\":" << st.programs << ",\"programs_exhaustive\":" << st.programs_exhaustive
           << ",\"max_sched_per_program\":" << st.max_sched_per_program << ",\"distinct_lock_orders\":" << st.acq_orders.size()
           << ",\"distinct_histories\":" << st.distinct_histories.size() << ",\"multi_final\":" << st.multi_final << ",\"probes\":" << st.probes
           << ",\"hangs\":" << st.hangs << ",\"viol\":[";
        for (size_t i = 0; i < viols.size(); ++i)
        {
            if (i)
                os << ',';
            os << "{\"tags\":[";
            for (size_t j = 0; j < viols[i].tags.size(); ++j)
                os << (j ? "," : "") << "\"" << json_escape(viols[i].tags[j]) << "\"";
            os << "],\"setup\":" << (viols[i].setup_violation ? "true" : "false") << ",\"detail\":\"" << json_escape(viols[i].detail) << "\",\"lines\":[";
            for (size_t j = 0; j < viols[i].lines.size(); ++j)
                os << (j ? "," : "") << "\"" << json_escape(viols[i].lines[j]) << "\"";
            os << "]}";
        }
        os << "],\"samples\":[";
        for (size_t i = 0; i < samples.size(); ++i)
        {
            if (i)
                os << ',';
            os << "[";
            for (size_t j = 0; j < samples[i].size(); ++j)
                os << (j ? "," : "") << "\"" << json_escape(samples[i][j]) << "\"";
            os << "]";
        }
        os << "]}\n";
        if (!out_path.empty())
        {
            std::ofstream f(out_path);
            f << os.str();
        }
        else
            std::cout << os.str();
    }
};

int main(int argc, char** argv)
{
    std::string mode = "free", out;
    int         kind = LRU, worker = 0, nworkers = 1, max_sched = 3000, nrandom = 40;
    uint64_t    n = 100, seed = 1;
    bool        typeset1 = false;
    std::string replay_mode;
    uint64_t    replay_seed = 0;
    int         replay_points = 1, repeat = 200;
    std::vector<int> replay_choices;
    for (int i = 1; i < argc; ++i)
    {
        std::string a   = argv[i];
        auto        nxt = [&]() -> std::string { return i + 1 < argc ? argv[++i] : ""; };
        if (a == "--mode")
            mode = nxt();
        else if (a == "--kind")
            kind = kind_from_name(nxt());
        else if (a == "--n")
            n = std::strtoull(nxt().c_str(), nullptr, 10);
        else if (a == "--seed")
            seed = std::strtoull(nxt().c_str(), nullptr, 10);
        else if (a == "--worker")
            worker = std::atoi(nxt().c_str());
        else if (a == "--nworkers")
            nworkers = std::atoi(nxt().c_str());
        else if (a == "--out")
            out = nxt();
        else if (a == "--max-sched")
            max_sched = std::atoi(nxt().c_str());
        else if (a == "--nrandom")
            nrandom = std::atoi(nxt().c_str());
        else if (a == "--typeset1")
            typeset1 = true;
        else if (a == "--replay-mode")
            replay_mode = nxt();
        else if (a == "--replay-seed")
            replay_seed = std::strtoull(nxt().c_str(), nullptr, 10);
        else if (a == "--points")
            replay_points = std::atoi(nxt().c_str());
        else if (a == "--repeat")
            repeat = std::atoi(nxt().c_str());
        else if (a == "--choices")
        {
            std::istringstream is(nxt());
            int                c;
            while (is >> c)
                replay_choices.push_back(c);
        }
    }
    if (kind < 0)
    {
        std::fprintf(stderr, "HARNESS-FAILURE: unknown kind\n");
        return 2;
    }
    vclock::selftest();
    cv::g_lock_hook.store(&lock_hook);
    Engine E;
    E.kind     = kind;
    E.out_path = out;
    if (!replay_mode.empty())
    {
        // re-execute one recorded round: controlled schedules exactly (choice sequence), free-running rounds by
        // repeating the same seed until the violation shows again (up to --repeat times)
        int rc = 0;
        if (replay_mode == "free")
        {
            for (int i = 0; i < repeat && E.viols.empty(); ++i)
                E.free_round(replay_seed, typeset1);
            std::printf("free-running round %" PRIu64 " repeated up to %d time(s): %zu violating execution(s)\n", replay_seed, repeat, E.viols.size());
        }
        else
        {
            bool      two = replay_mode == "sched2";
            int       nth = two ? 2 : 3;
            RoundSpec rs  = replay_mode == "schedr" ? E.make_round(replay_seed, 3, 4, 2, 3, false) : E.make_round(replay_seed, nth, nth, 1, two ? 3 : 2, false);
            std::vector<int> made, options;
            RoundOutcome     ro;
            E.sched_exec(rs, replay_choices, nullptr, replay_points == 2, -1, made, options, ro);
            E.account(rs, ro, Engine::round_header(rs, "sched", replay_seed, ""));
            for (auto& l : ro.lines)
                std::printf("%s\n", l.c_str());
        }
        for (auto& v : E.viols)
        {
            rc = 1;
            for (auto& l : v.lines)
                std::printf("%s\n", l.c_str());
            std::printf("REPLAY: violated: %s: %s\n", v.tags.empty() ? "?" : v.tags[0].c_str(), v.detail.c_str());
        }
        if (rc == 0)
            std::printf("REPLAY: no violation\n");
        return rc;
    }
    uint64_t base = mix(mix(seed, hash_str(mode)), (uint64_t)kind * 1315423911ULL + 17);
    for (uint64_t i = (uint64_t)worker; i < n; i += (uint64_t)nworkers)
    {
        uint64_t s = mix(base, i);
        if (mode == "free")
            E.free_round(s, typeset1);
        else if (mode == "sched2")
            E.sched_program(s, true, max_sched, (i % 2) == 1);
        else if (mode == "sched3")
            E.sched_program(s, false, max_sched, false);
        else if (mode == "schedr")
            E.sched_random_program(s, nrandom);
    }
    E.write_report();
    return 0;
}
