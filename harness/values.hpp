// Concrete key / value types the abstract integer keys and value ids are mapped onto.
#pragma once
#include "common.hpp"

#include <atomic>
#include <cstdint>
#include <functional>
#include <memory>
#include <mutex>
#include <string>
#include <unordered_set>

namespace vh
{
// ---------------------------------------------------------------------------------------------
// Tracked: heap-owning, instance-registering value.  Every constructed object registers its
// address; destruction of an unregistered address (double destroy / destroy of raw storage) and
// use of a dead object are recorded as errors; objects still registered after the container is
// gone are leaks ("destroyed exactly once").
struct TrackedRegistry
{
    std::mutex                      m;
    std::unordered_set<const void*> live;
    uint64_t                        constructed{0}, destroyed{0};
    std::string                     first_error;
    static TrackedRegistry&         get()
    {
        static TrackedRegistry r;
        return r;
    }
    void error(const std::string& e)
    {
        if (first_error.empty())
            first_error = e;
    }
};

class Tracked
{
public:
    Tracked() : m_id(0), m_heap(new uint64_t(0)) { reg(); }
    explicit Tracked(uint64_t id) : m_id(id), m_heap(new uint64_t(id)) { reg(); }
    // The copy reads the source twice with an optional harness-installed pause in between (copy_hook; idle unless the
    // concurrent driver installs it).  Under a library that copies values only while it holds its lock the pause is
    // invisible; one that copies a stored value after unlocking, or walks a range without the lock, gets its window widened:
    // the second read then sees a changed or freed payload (ASan) or the caller a torn result (linearizability checker).
    Tracked(const Tracked& o) : m_id(o.checked_id()), m_heap(nullptr)
    {
        if (auto h = copy_hook().load(std::memory_order_relaxed))
            h();
        m_heap = new uint64_t(o.m_heap ? *o.m_heap : o.m_id);
        if (*m_heap != m_id)
        {
            auto&                       r = TrackedRegistry::get();
            std::lock_guard<std::mutex> g(r.m);
            r.error("source of a copy changed while it was being copied");
            m_id = *m_heap;
        }
        reg();
    }
    static std::atomic<void (*)()>& copy_hook()
    {
        static std::atomic<void (*)()> h{nullptr};
        return h;
    }
    Tracked(Tracked&& o) noexcept : m_id(o.checked_id()), m_heap(o.m_heap)
    {
        o.m_heap = nullptr; // moved-from: valid but payload-less
        o.m_id   = MOVED;
        reg();
    }
    Tracked& operator=(const Tracked& o)
    {
        check_alive("copy-assign to dead object");
        if (this != &o)
        {
            uint64_t id = o.checked_id();
            delete m_heap;
            m_heap = new uint64_t(id);
            m_id   = id;
        }
        return *this;
    }
    Tracked& operator=(Tracked&& o) noexcept
    {
        check_alive("move-assign to dead object");
        if (this != &o)
        {
            uint64_t id = o.checked_id();
            delete m_heap;
            m_heap   = o.m_heap;
            m_id     = id;
            o.m_heap = nullptr;
            o.m_id   = MOVED;
        }
        return *this;
    }
    ~Tracked()
    {
        auto&                       r = TrackedRegistry::get();
        std::lock_guard<std::mutex> g(r.m);
        if (m_canary != CANARY || r.live.erase(this) == 0)
            r.error("destructor ran on an object that is not alive (double destroy or raw storage)");
        ++r.destroyed;
        m_canary = DEAD;
        delete m_heap;
        m_heap = nullptr;
    }
    // The id a reader of this value observes; a moved-from or dead object read as a value is an error.
    uint64_t id() const
    {
        check_alive("read of dead object");
        if (m_id == MOVED || m_heap == nullptr)
        {
            auto&                       r = TrackedRegistry::get();
            std::lock_guard<std::mutex> g(r.m);
            r.error("value read from a moved-from object");
            return MOVED;
        }
        if (*m_heap != m_id)
        {
            auto&                       r = TrackedRegistry::get();
            std::lock_guard<std::mutex> g(r.m);
            r.error("heap payload does not match id");
        }
        return m_id;
    }

    static const uint64_t MOVED = 0xFFFFFFFFFFFFFF01ULL;

private:
    static const uint32_t CANARY = 0xC0FFEE11u, DEAD = 0xDEADDEADu;
    uint64_t              checked_id() const
    {
        check_alive("copy/move from dead object");
        return m_id;
    }
    void check_alive(const char* what) const
    {
        if (m_canary != CANARY)
        {
            auto&                       r = TrackedRegistry::get();
            std::lock_guard<std::mutex> g(r.m);
            r.error(what);
        }
    }
    void reg()
    {
        auto&                       r = TrackedRegistry::get();
        std::lock_guard<std::mutex> g(r.m);
        if (!r.live.insert(this).second)
            r.error("constructor ran on an address that already holds a live object");
        ++r.constructed;
    }
    uint64_t  m_id;
    uint64_t* m_heap;
    uint32_t  m_canary{CANARY};
};

// ---------------------------------------------------------------------------------------------
struct CollidingKey
{
    int  k{0};
    bool operator==(const CollidingKey& o) const { return k == o.k; }
    bool operator<(const CollidingKey& o) const { return k < o.k; }
};

// key mapping ---------------------------------------------------------------------------------
template<typename K>
struct KeyMap;
template<>
struct KeyMap<uint64_t>
{
    static uint64_t make(int k) { return (uint64_t)k; }
    static int      back(const uint64_t& k) { return (int)k; }
};
template<>
struct KeyMap<std::string>
{
    static std::string make(int k)
    {
        char buf[64];
        std::snprintf(buf, sizeof buf, "key-%040d", k);
        return buf;
    }
    static int back(const std::string& s) { return s.size() > 4 ? std::atoi(s.c_str() + 4) : -1; }
};
template<>
struct KeyMap<CollidingKey>
{
    static CollidingKey make(int k) { return CollidingKey{k}; }
    static int          back(const CollidingKey& k) { return k.k; }
};

// value mapping -------------------------------------------------------------------------------
template<typename V>
struct ValMap;
template<>
struct ValMap<uint64_t>
{
    static uint64_t make(uint64_t id) { return id; }
    static uint64_t back(const uint64_t& v) { return v; }
};
template<>
struct ValMap<Tracked>
{
    static Tracked  make(uint64_t id) { return Tracked(id); }
    static uint64_t back(const Tracked& v) { return v.id(); }
};
template<>
struct ValMap<std::shared_ptr<uint64_t>>
{
    static std::shared_ptr<uint64_t> make(uint64_t id) { return std::make_shared<uint64_t>(id); }
    static uint64_t                  back(const std::shared_ptr<uint64_t>& v) { return v ? *v : 0xFFFFFFFFFFFFFF02ULL; }
};

} // namespace vh

namespace std
{
template<>
struct hash<vh::CollidingKey>
{
    size_t operator()(const vh::CollidingKey& k) const noexcept { return (size_t)(k.k & 1); }
};
} // namespace std
