// Linearizability checking of recorded concurrent histories against the executable specification
// (Wing & Gong / Lowe style search with memoisation over (linearized set, specification state)).
#pragma once
#include "monitor.hpp"

#include <string>
#include <unordered_set>
#include <vector>

namespace vh
{
struct HOp
{
    Op       op;
    Res      res;
    uint64_t inv{0}, resp{0};
    int      thread{0};
    int      index{0}; // position in its thread's program
};

struct LinResult
{
    bool               capped{false};
    uint64_t           nodes{0};
    std::vector<State> finals; // all specification states reachable by some valid linearization
    std::vector<int>   witness; // one valid order (indices into the history), if any
};

class LinChecker
{
public:
    const Model&            m;
    const std::vector<HOp>& h;
    int64_t                 now;
    uint64_t                node_cap;
    LinResult               out;
    LinChecker(const Model& model, const std::vector<HOp>& hist, int64_t t, uint64_t cap = 1000000) : m(model), h(hist), now(t), node_cap(cap) {}

    void run(const std::vector<State>& init)
    {
        for (auto& s : init)
        {
            std::vector<int> order;
            dfs(0, s, order);
            if (out.capped)
                return;
        }
    }

private:
    std::unordered_set<uint64_t> seen;
    std::vector<uint64_t>        final_hashes;

    void dfs(uint32_t mask, const State& s, std::vector<int>& order)
    {
        if (out.capped)
            return;
        uint64_t key = mix(s.hash(), (uint64_t)mask * 0x9E3779B97F4A7C15ULL + 7);
        if (!seen.insert(key).second)
            return;
        if (++out.nodes > node_cap)
        {
            out.capped = true;
            return;
        }
        const uint32_t full = h.size() >= 32 ? 0xFFFFFFFFu : ((1u << h.size()) - 1);
        if (mask == full)
        {
            uint64_t hh = s.hash();
            for (size_t i = 0; i < out.finals.size(); ++i)
                if (final_hashes[i] == hh && out.finals[i] == s)
                    return;
            final_hashes.push_back(hh);
            out.finals.push_back(s);
            if (out.witness.empty())
                out.witness = order;
            return;
        }
        for (size_t i = 0; i < h.size(); ++i)
        {
            if (mask & (1u << i))
                continue;
            // i may be linearized next only if no other pending op responded before i was invoked
            bool minimal = true;
            for (size_t j = 0; j < h.size() && minimal; ++j)
                if (j != i && !(mask & (1u << j)) && h[j].resp < h[i].inv)
                    minimal = false;
            if (!minimal)
                continue;
            std::vector<Outcome> outs;
            if (!m.step(s, h[i].op, now, outs))
            {
                out.capped = true;
                return;
            }
            for (auto& o : outs)
                if (res_equal(h[i].op, o.res, h[i].res))
                {
                    order.push_back((int)i);
                    dfs(mask | (1u << i), o.st, order);
                    order.pop_back();
                }
        }
    }
};

inline std::string hop_to_text(const HOp& e)
{
    return "T" + std::to_string(e.thread) + "." + std::to_string(e.index) + " [" + std::to_string(e.inv) + "," + std::to_string(e.resp) + "] " + op_to_text(e.op) +
           "  -> " + res_to_text(e.op, e.res);
}

} // namespace vh
