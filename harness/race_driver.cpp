// Race driver (C07): free-running threads issue seeded random calls over every public member of one
// shared thread_safe::yes container while ThreadSanitizer watches.  The driver itself adds no
// synchronisation between the worker threads inside a burst (per-thread PRNG, per-thread logs, rdtsc
// timestamps, relaxed virtual clock), because every acquire/release it added would create
// happens-before edges that hide library races.  Thread create/join delimit bursts.
#include "iface.hpp"

#include <x86intrin.h>

#include <algorithm>
#include <cinttypes>
#include <cstdio>
#include <fstream>
#include <iostream>
#include <sstream>
#include <thread>
#include <vector>

namespace vclock
{
int64_t now();
void    set(int64_t);
void    advance(int64_t);
void    selftest();
} // namespace vclock
namespace vrandom
{
void seed(uint64_t);
}

using namespace vh;

struct LogRec
{
    uint64_t t0, t1;
    int      method;
};

static std::vector<int> methods_of(int kind)
{
    std::vector<int> m = {INS, INSR, ERA, ERAR, FND, FNDR, FNDF, SIZE, EMPTY};
    if (kind_has_capacity(kind))
        m.push_back(CAP);
    if (kind == FIFO)
    {
        m.push_back(INSI);
        m.push_back(ERAI);
        m.push_back(FNDI);
        m.push_back(FNDFI);
    }
    if (kind_has_counts(kind))
        m.push_back(FUC);
    if (kind_has_clean(kind))
        m.push_back(CLEAN);
    if (kind == LFUDA)
        m.push_back(AGE);
    if (kind_has_clear(kind))
        m.push_back(CLEAR);
    if (kind == UTLRU)
        m.push_back(SETTTL);
    return m;
}

static Op make_op(int kind, int method, Rng& rng, int universe, uint64_t& vid)
{
    Op op;
    op.kind  = method;
    op.k     = (int)rng.below((uint64_t)universe);
    op.v     = ++vid;
    op.allow = 1 + (int)rng.below(3);
    op.peek  = kind_has_peek(kind) && rng.chance(1, 2);
    static const int64_t ttls[] = {0, 1, 2, 5, 20};
    op.ttl                      = ttls[rng.below(5)];
    if (op_is_range(method))
    {
        int n = (int)rng.below(4);
        for (int i = 0; i < n; ++i)
        {
            Item it;
            it.k   = (int)rng.below((uint64_t)universe);
            it.v   = ++vid;
            it.ttl = ttls[rng.below(5)];
            op.items.push_back(it);
        }
        op.v = rng.below(4);
    }
    return op;
}

int main(int argc, char** argv)
{
    int         kind = LRU, threads = 4, bursts = 20, ops_per_burst = 400;
    uint64_t    seed = 1;
    std::string out, mix_name = "all";
    for (int i = 1; i < argc; ++i)
    {
        std::string a   = argv[i];
        auto        nxt = [&]() -> std::string { return i + 1 < argc ? argv[++i] : ""; };
        if (a == "--kind")
            kind = kind_from_name(nxt());
        else if (a == "--threads")
            threads = std::atoi(nxt().c_str());
        else if (a == "--bursts")
            bursts = std::atoi(nxt().c_str());
        else if (a == "--ops")
            ops_per_burst = std::atoi(nxt().c_str());
        else if (a == "--seed")
            seed = std::strtoull(nxt().c_str(), nullptr, 10);
        else if (a == "--out")
            out = nxt();
        else if (a == "--mix")
            mix_name = nxt();
    }
    if (kind < 0)
    {
        std::fprintf(stderr, "HARNESS-FAILURE: unknown kind\n");
        return 2;
    }
    vclock::selftest();
    std::vector<int> methods = methods_of(kind);
    // observers and the configuration setter are weighted up: they are where an unlocked access would hide
    std::vector<int> weighted;
    for (int m : methods)
    {
        int w = (m == SIZE || m == EMPTY || m == CAP || m == SETTTL) ? 3 : ((m == CLEAR) ? 1 : 2);
        if (mix_name == "lookup")
        {
            // lookup-heavy mix: few exclusive-lock operations, so that two lookups are rarely ordered through a chain of
            // lock hand-overs and an unsynchronised access shared by lookups (a reader-lock fast path, say) stays visible
            w = op_is_find(m) ? 12 : ((m == INS || m == INSR) ? 2 : 1);
        }
        for (int i = 0; i < w; ++i)
            weighted.push_back(m);
    }
    const int NM = NOPK + 1;
    std::vector<std::vector<uint8_t>> overlap((size_t)NM, std::vector<uint8_t>((size_t)NM, 0));
    uint64_t                          total_ops = 0, overlapping_pairs = 0;
    Rng                               top(mix(seed, (uint64_t)kind * 7919 + 13));

    for (int b = 0; b < bursts; ++b)
    {
        Cfg cfg;
        cfg.kind     = kind;
        cfg.typeset  = 0;
        cfg.ts       = true;
        cfg.cap      = kind_has_capacity(kind) ? top.range(1, 4) : 0;
        cfg.universe = top.range(3, 6);
        cfg.ttl_ms   = (int64_t[]){0, 1, 2, 5, 20}[top.below(5)];
        cfg.tick_ms  = 1;
        cfg.ratio_q  = top.range(0, 4);
        cfg.rseed    = top.next();
        if (((cfg.rseed >> 40) & 3) == 0) // an unusual max_load_factor (rehash on almost every insert, or never) in one burst of four
            cfg.mlf = (float[]){0.01f, 0.25f, 0.7f, 3.7f, 16.0f, 1000.0f}[(cfg.rseed >> 44) % 6];
        vrandom::seed(cfg.rseed);
        ICache* cache = make_cache(cfg);
        // several sub-bursts on the same instance with clock bumps in between (no thread running then)
        for (int sb = 0; sb < 5; ++sb)
        {
            std::vector<std::vector<LogRec>> logs((size_t)threads);
            std::vector<std::thread>         th;
            for (int t = 0; t < threads; ++t)
            {
                uint64_t tseed = top.next();
                logs[(size_t)t].reserve((size_t)ops_per_burst);
                th.emplace_back([&, t, tseed]() {
                    Rng      rng(tseed);
                    Res      res;
                    uint64_t vid = ((uint64_t)t + 1) << 40;
                    auto&    lg  = logs[(size_t)t];
                    for (int i = 0; i < ops_per_burst; ++i)
                    {
                        int    m  = weighted[rng.below(weighted.size())];
                        Op     op = make_op(kind, m, rng, cfg.universe, vid);
                        LogRec r;
                        r.method = m;
                        r.t0     = __rdtsc();
                        cache->apply(op, res);
                        r.t1 = __rdtsc();
                        lg.push_back(r);
                    }
                });
            }
            for (auto& t : th)
                t.join();
            // overlap matrix from the per-thread logs (computed after join; tsc is monotonic enough across cores here)
            for (int a = 0; a < threads; ++a)
                for (int c = a + 1; c < threads; ++c)
                {
                    auto&  la = logs[(size_t)a];
                    auto&  lc = logs[(size_t)c];
                    size_t j  = 0;
                    for (size_t i = 0; i < la.size(); ++i)
                    {
                        while (j < lc.size() && lc[j].t1 < la[i].t0)
                            ++j;
                        for (size_t k = j; k < lc.size() && lc[k].t0 <= la[i].t1; ++k)
                        {
                            overlap[(size_t)la[i].method][(size_t)lc[k].method] = 1;
                            overlap[(size_t)lc[k].method][(size_t)la[i].method] = 1;
                            ++overlapping_pairs;
                        }
                    }
                }
            total_ops += (uint64_t)threads * (uint64_t)ops_per_burst;
            // let entries expire between sub-bursts (TTLs are 0-20 ms), so that the next burst starts on a cache holding
            // expired-but-unreaped entries: lookups, peeks included, then take their reaping paths concurrently
            vclock::advance((int64_t)top.below(6000000) + 1);
        }
        std::string derr = cache->destroy_check();
        delete cache;
        if (!derr.empty())
        {
            std::fprintf(stderr, "HARNESS-FAILURE: %s\n", derr.c_str());
            return 2;
        }
    }
    // report
    std::ostringstream os;
    os << "{\"kind\":\"" << kind_names[kind] << "\",\"threads\":" << threads << ",\"bursts\":" << bursts << ",\"ops\":" << total_ops
       << ",\"overlapping_call_pairs\":" << overlapping_pairs << ",\"methods\":[";
    for (size_t i = 0; i < methods.size(); ++i)
        os << (i ? "," : "") << "\"" << opk_names[methods[i]] << "\"";
    os << "],\"pairs_observed\":[";
    bool   first = true;
    size_t seen = 0, total = 0;
    for (size_t i = 0; i < methods.size(); ++i)
        for (size_t j = i; j < methods.size(); ++j)
        {
            ++total;
            if (overlap[(size_t)methods[i]][(size_t)methods[j]])
            {
                ++seen;
                os << (first ? "" : ",") << "\"" << opk_names[methods[i]] << "|" << opk_names[methods[j]] << "\"";
                first = false;
            }
        }
    os << "],\"pairs_total\":" << total << ",\"pairs_seen\":" << seen << "}\n";
    if (!out.empty())
    {
        std::ofstream f(out);
        f << os.str();
    }
    else
        std::cout << os.str();
    return 0;
}
