// Adapter translation unit for rr (the only kind of TU, with the other adapters, that includes the library).
#include "adapter.hpp"
namespace vh
{
ICache* make_cache_rr(const Cfg& cfg) { return make_cache_kind<RR>(cfg); }
} // namespace vh
