// Adapter translation unit for utlru (the only kind of TU, with the other adapters, that includes the library).
#include "adapter.hpp"
namespace vh
{
ICache* make_cache_utlru(const Cfg& cfg) { return make_cache_kind<UTLRU>(cfg); }
} // namespace vh
