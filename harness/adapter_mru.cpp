// Adapter translation unit for mru (the only kind of TU, with the other adapters, that includes the library).
#include "adapter.hpp"
namespace vh
{
ICache* make_cache_mru(const Cfg& cfg) { return make_cache_kind<MRU>(cfg); }
} // namespace vh
