// Executable specification of the ten containers, written from the property statements
// (DESIGN.md 3.3 / Appendix A), not from the code.  It is nondeterministic exactly where the
// statements grant freedom: LFU ties, the rr victim, the fate of expired-but-unreaped entries
// (tracked as a set U of keys that may still occupy a slot plus a count r of how many really do),
// and update-only / erase addressed to such an entry.
#pragma once
#include "common.hpp"

#include <algorithm>
#include <cstdint>
#include <vector>

namespace vh
{
enum St : uint8_t
{
    ABSENT = 0,
    LIVE   = 1,
    EXPU   = 2 // expired while resident; may still occupy a slot (TTL containers only)
};
enum Why : uint8_t
{
    W_NEVER = 0,
    W_ERASED,
    W_EVICTED,
    W_CLEARED,
    W_EXPIRED
};

// Event bits: what happened inside one op (used for non-triviality triggers and coverage).
enum Ev : uint64_t
{
    EV_EVICT            = 1ull << 0,  // a live resident was evicted by the policy
    EV_EVICT_EXPIRED    = 1ull << 1,  // tlru/utlru: a full insert removed an expired resident instead
    EV_EVICT_MIXED      = 1ull << 2,  // ... with 0 < r < capacity (genuine live/expired mix)
    EV_EVICT_NONTRIV    = 1ull << 3,  // victim is neither the oldest- nor the newest-inserted resident
    EV_EVICT_AFTER_GAP  = 1ull << 4,  // full insert after at least one erase since the cache was last full
    EV_LFU_MULTI        = 1ull << 5,  // eviction with >= 2 distinct counts, minimum not held by the newest key
    EV_AGING_PARTIAL    = 1ull << 6,  // aging point where some but not all residents are due
    EV_AGING_IN_INSERT  = 1ull << 7,  // aging point inside a full insert with >= 1 due entry
    EV_AGING_ANY        = 1ull << 8,  // aging point with >= 1 due entry
    EV_HIT_RECYCLED     = 1ull << 9,  // lookup hit on a key (re)inserted after absence >= 2 times
    EV_HIT_MOVED_DL     = 1ull << 10, // hit on an entry whose deadline was moved by an update
    EV_REJECT           = 1ull << 11, // insert rejected by its allow mode
    EV_UPD_ON_U_TRUE    = 1ull << 12, // update-only on an expired-unreaped key succeeded
    EV_UPD_ON_U_FALSE   = 1ull << 13, // ... failed
    EV_OVERWRITE_EXP    = 1ull << 14, // insert / upsert over an expired-unreaped entry
    EV_CLEAN_MIXED      = 1ull << 15, // clean_expired_values with 0 < r < size
    EV_CLEAN_SOME       = 1ull << 16, // clean_expired_values with r > 0
    EV_RANGE_DUP        = 1ull << 17, // range op with duplicate keys
    EV_RANGE_OVERCAP    = 1ull << 18, // range insert evicting one of its own earlier elements
    EV_RANGE_EXPIRED    = 1ull << 19, // range touching an expired-unreaped key
    EV_ERASE_OK         = 1ull << 20,
    EV_EXPIRE           = 1ull << 21, // an entry expired at the start of this op
    EV_REAP             = 1ull << 22, // expired residents were dropped during this op
    EV_CLEAR_NONEMPTY   = 1ull << 23,
    EV_UPDATE           = 1ull << 24,
    EV_USE              = 1ull << 25, // successful non-peek lookup that counts as a use
    EV_PEEK_HIT         = 1ull << 26,
    EV_MISS             = 1ull << 27,
    EV_ERASE_ABSENT     = 1ull << 28,
    EV_INSERT_NEW       = 1ull << 29,
    EV_EVICT_CHAIN3     = 1ull << 30, // third (or later) consecutive evicting insert
    EV_EVICT_VICTIM_UPD = 1ull << 31, // victim's most recent use was an update or a lookup (not its insert)
    EV_MRU_NEXT         = 1ull << 32, // mru: victim was the key inserted by the previous eviction
    EV_AGING_STRICT     = 1ull << 33, // aging point at which some resident was idle exactly tick (must not age)
    EV_ORDER_NEQ_DL     = 1ull << 34, // ttl: some pair of live entries has write order != deadline order
    EV_CNT3             = 1ull << 35, // a use count >= 3 observed
    EV_MISS_AT_DL       = 1ull << 36, // lookup at exactly the deadline of an entry (must miss)
    EV_HIT_BEFORE_DL    = 1ull << 37, // lookup hit at exactly deadline - 1 ns
    EV_HIT_MOVED_BEFORE = 1ull << 38, // ... on an entry whose deadline was moved by an update
    EV_EXPIRED_LOOKUP   = 1ull << 39, // lookup addressed to an expired-but-unreaped entry
    EV_NBITS            = 40
};

struct KS
{
    St       st{ABSENT};
    Why      why{W_NEVER};
    uint8_t  moved{0};    // deadline moved by an update since insertion
    uint8_t  lastuse{0};  // 0 insert, 1 update, 2 lookup
    uint8_t  inferred{0}; // the current value was written by a range element whose acceptance nobody observed directly
    uint32_t gen{0};      // times (re)inserted after absence
    uint64_t val{0}, ins_seq{0}, use_seq{0}, wr_seq{0}, count{0};
    int64_t  touch{0}, deadline{0}, wtime{0};
    bool     operator==(const KS& o) const
    {
        if (st != o.st)
            return false;
        if (st == ABSENT)
            return why == o.why;
        return val == o.val && ins_seq == o.ins_seq && use_seq == o.use_seq && count == o.count && touch == o.touch &&
               deadline == o.deadline && moved == o.moved;
    }
};

struct State
{
    std::vector<KS> k;
    int             r{0};        // expired entries that really occupy a slot
    int64_t         ttl_cfg{0};  // ms
    uint64_t        seq{0};
    bool            purged{false}; // ut_map/ut_set: the last op was one after which size() must equal the live count
    uint16_t        since_full_erases{0}, chain{0};
    int             last_evict_new{-1}; // key inserted by the previous evicting insert
    int             live() const
    {
        int n = 0;
        for (auto& e : k)
            n += e.st == LIVE;
        return n;
    }
    int ucount() const
    {
        int n = 0;
        for (auto& e : k)
            n += e.st == EXPU;
        return n;
    }
    bool operator==(const State& o) const { return r == o.r && ttl_cfg == o.ttl_cfg && purged == o.purged && k == o.k; }
    uint64_t hash() const
    {
        uint64_t h = 1469598103934665603ULL ^ (uint64_t)r * 31 ^ (uint64_t)ttl_cfg * 131 ^ (purged ? 7 : 0);
        for (auto& e : k)
        {
            h = (h ^ e.st) * 1099511628211ULL;
            if (e.st != ABSENT)
            {
                h = (h ^ e.val) * 1099511628211ULL;
                h = (h ^ e.use_seq) * 1099511628211ULL;
                h = (h ^ (e.ins_seq * 0x9E3779B97F4A7C15ULL)) * 1099511628211ULL;
                h = (h ^ e.count) * 1099511628211ULL;
                h = (h ^ (uint64_t)e.deadline) * 1099511628211ULL;
                h = (h ^ (uint64_t)e.touch) * 1099511628211ULL;
            }
            else
                h = (h ^ (e.why + 77)) * 1099511628211ULL;
        }
        return h;
    }
};

struct ElemRes
{
    bool     ok{false};
    bool     hit{false};
    uint64_t val{0};
    uint64_t cnt{0};
};

struct Outcome
{
    State                st;
    Res                  res;
    uint64_t             ev{0};
    std::vector<int>     victims; // live keys evicted by the policy during this op, in order
    int                  aged{0};
};

struct Cand
{
    State                st;
    uint64_t             ev{0};
    std::vector<ElemRes> er;
    std::vector<int>     victims;
    std::vector<int>     written; // keys inserted fresh by this op so far
    int                  aged{0};
};

static const size_t MAX_CANDS = 4096;

class Model
{
public:
    Cfg          cfg;
    mutable bool in_range_op{false};
    explicit Model(const Cfg& c) : cfg(c) {}

    State initial() const
    {
        State s;
        s.k.resize((size_t)cfg.universe);
        s.ttl_cfg = cfg.ttl_ms;
        return s;
    }
    // candidate-set cap: bounded in *bytes* (a state is ~80 bytes per key), so that hundreds of keys with a
    // blown-up candidate set make the case inconclusive quickly instead of grinding
    size_t cand_cap() const { return std::max<size_t>(64, std::min<size_t>(MAX_CANDS, 200000 / (size_t)std::max(1, cfg.universe))); }
    bool ttl() const { return kind_is_ttl(cfg.kind); }
    bool ttllru() const { return kind_is_ttllru(cfg.kind); }
    bool utm() const { return cfg.kind == UTMAP || cfg.kind == UTSET; }
    int  size_of(const State& s) const { return s.live() + (ttl() ? s.r : 0); }
    bool full(const State& s) const { return kind_has_capacity(cfg.kind) && size_of(s) >= cfg.cap; }

    // Entries whose deadline has been reached stop being live (inclusive boundary).
    // Returns the number that expired.
    int expire(State& s, int64_t now) const
    {
        if (!ttl())
            return 0;
        int n = 0;
        for (auto& e : s.k)
            if (e.st == LIVE && e.deadline <= now)
            {
                e.st  = EXPU;
                e.why = W_EXPIRED;
                ++s.r;
                ++n;
            }
        return n;
    }
    static void clear_u(State& s)
    {
        for (auto& e : s.k)
            if (e.st == EXPU)
            {
                e.st  = ABSENT;
                e.why = W_EXPIRED;
            }
        s.r = 0;
    }
    bool op_purges(int kind) const { return utm() && (op_is_insert(kind) || op_is_erase(kind) || op_is_find(kind) || kind == CLEAN); }

    // ---- the transition relation for one top-level op ------------------------------------------
    // Returns false if the candidate cap was exceeded (caller treats the case as inconclusive).
    bool step(const State& s0, const Op& op, int64_t now, std::vector<Outcome>& out) const
    {
        in_range_op = op_is_range(op.kind);
        std::vector<Cand> cur(1), nxt;
        cur[0].st = s0;
        State& s  = cur[0].st;
        if (expire(s, now) > 0)
            cur[0].ev |= EV_EXPIRE;
        uint64_t pre_r = (uint64_t)s.r;
        if (op_purges(op.kind))
        {
            if (s.r > 0)
                cur[0].ev |= EV_REAP;
            // ut_map / ut_set: every insert / erase / lookup / clean starts by discarding what has expired
            if (op.kind != CLEAN)
                clear_u(s);
        }
        if (ttl() && op.kind != SIZE && op.kind != EMPTY && op.kind != CAP && op.kind != SETTTL)
            s.purged = false;
        if (ttl() && order_neq_deadline(s))
            cur[0].ev |= EV_ORDER_NEQ_DL;

        bool     dup = false, touches_u = false;
        if (op_is_range(op.kind))
        {
            for (size_t i = 0; i < op.items.size(); ++i)
            {
                for (size_t j = 0; j < i; ++j)
                    if (op.items[i].k == op.items[j].k)
                        dup = true;
                if (s.k[(size_t)op.items[i].k].st == EXPU)
                    touches_u = true;
            }
            if (dup)
                cur[0].ev |= EV_RANGE_DUP;
            if (touches_u)
                cur[0].ev |= EV_RANGE_EXPIRED;
        }

        switch (op.kind)
        {
            case INS:
                elem_all(cur, nxt, [&](const Cand& c, std::vector<Cand>& o) { elem_insert(c, op.k, op.v, op.allow, op.ttl, now, o); });
                break;
            case INSR:
            case INSI:
                for (auto& it : op.items)
                {
                    if (!elem_all(cur, nxt, [&](const Cand& c, std::vector<Cand>& o) { elem_insert(c, it.k, it.v, op.allow, it.ttl, now, o); }))
                        return false;
                }
                break;
            case ERA:
                elem_all(cur, nxt, [&](const Cand& c, std::vector<Cand>& o) { elem_erase(c, op.k, now, o); });
                break;
            case ERAR:
            case ERAI:
                for (auto& it : op.items)
                    if (!elem_all(cur, nxt, [&](const Cand& c, std::vector<Cand>& o) { elem_erase(c, it.k, now, o); }))
                        return false;
                break;
            case FND:
            case FUC:
                elem_all(cur, nxt, [&](const Cand& c, std::vector<Cand>& o) { elem_find(c, op.k, op.peek, now, o); });
                break;
            case FNDR:
            case FNDF:
            case FNDI:
            case FNDFI:
                for (auto& it : op.items)
                    if (!elem_all(cur, nxt, [&](const Cand& c, std::vector<Cand>& o) { elem_find(c, it.k, op.peek, now, o); }))
                        return false;
                break;
            case CLEAN: {
                Cand& c = cur[0];
                ElemRes e;
                e.cnt = (uint64_t)c.st.r;
                if (c.st.r > 0)
                {
                    c.ev |= EV_CLEAN_SOME | EV_REAP;
                    if (c.st.live() > 0)
                        c.ev |= EV_CLEAN_MIXED;
                }
                clear_u(c.st);
                c.er.push_back(e);
                break;
            }
            case AGE: {
                Cand& c = cur[0];
                ElemRes e;
                e.cnt = (uint64_t)aging_point(c, now, false);
                c.er.push_back(e);
                break;
            }
            case CLEAR: {
                Cand& c = cur[0];
                if (size_of(c.st) > 0)
                    c.ev |= EV_CLEAR_NONEMPTY;
                for (auto& e : c.st.k)
                    if (e.st != ABSENT)
                    {
                        e.st  = ABSENT;
                        e.why = W_CLEARED;
                    }
                c.st.r                 = 0;
                c.st.since_full_erases = 0;
                c.st.chain             = 0;
                c.st.last_evict_new    = -1;
                break;
            }
            case SETTTL:
                cur[0].st.ttl_cfg = op.ttl;
                break;
            case SIZE:
            case EMPTY:
                // ut_map / ut_set: size() is pinned to the live count only right after an insert / erase /
                // lookup / clean; at other moments it may still count entries that have expired since.
                if (utm() && !cur[0].st.purged && cur[0].st.r > 0)
                {
                    Cand base = cur[0];
                    for (int rr = 0; rr < base.st.r; ++rr)
                    {
                        Cand d = base;
                        d.st.r = rr;
                        if (rr == 0)
                            clear_u(d.st);
                        cur.push_back(std::move(d));
                    }
                }
                break;
            case CAP:
            case ADV:
            case SET:
            case NOPK:
                break;
            default:
                break;
        }

        // extra freedom of tlru / utlru: any op other than a full insert of a new key may drop any
        // number of expired residents.  (Applied per element inside elem_*; nothing to do here.)
        (void)pre_r;

        for (auto& c : cur)
        {
            Outcome o;
            // an entry written with TTL 0 is dead on arrival
            if (expire(c.st, now) > 0)
                c.ev |= EV_EXPIRE;
            if (op_purges(op.kind))
                c.st.purged = true;
            o.ev      = c.ev;
            o.victims = std::move(c.victims);
            o.aged    = c.aged;
            build_res(op, c, o.res);
            o.st = std::move(c.st);
            out.push_back(std::move(o));
        }
        return true;
    }

    // Result of the pure observers in state s.  For TTL containers SIZE == live + r.
    uint64_t size_result(const State& s) const
    {
        if (utm() && s.purged)
            return (uint64_t)s.live();
        return (uint64_t)size_of(s);
    }

    // Number of residents due for aging at 'now' (strictly idle longer than the tick).
    int due_count(const State& s, int64_t now) const
    {
        int n = 0;
        for (auto& e : s.k)
            if (e.st == LIVE && e.touch + cfg.tick_ms * 1000000LL < now)
                ++n;
        return n;
    }

    // policy victim candidates among the live residents of s (s is full, r == 0 for ttl-lru)
    void victims_of(const State& s, std::vector<int>& v) const
    {
        v.clear();
        int      best = -1;
        uint64_t bv   = 0;
        switch (cfg.kind)
        {
            case FIFO:
                for (size_t i = 0; i < s.k.size(); ++i)
                    if (s.k[i].st == LIVE && (best < 0 || s.k[i].ins_seq < bv))
                    {
                        best = (int)i;
                        bv   = s.k[i].ins_seq;
                    }
                if (best >= 0)
                    v.push_back(best);
                break;
            case LRU:
            case TLRU:
            case UTLRU:
                for (size_t i = 0; i < s.k.size(); ++i)
                    if (s.k[i].st == LIVE && (best < 0 || s.k[i].use_seq < bv))
                    {
                        best = (int)i;
                        bv   = s.k[i].use_seq;
                    }
                if (best >= 0)
                    v.push_back(best);
                break;
            case MRU:
                for (size_t i = 0; i < s.k.size(); ++i)
                    if (s.k[i].st == LIVE && (best < 0 || s.k[i].use_seq > bv))
                    {
                        best = (int)i;
                        bv   = s.k[i].use_seq;
                    }
                if (best >= 0)
                    v.push_back(best);
                break;
            case LFU:
            case LFUDA: {
                uint64_t mn = UINT64_MAX;
                for (auto& e : s.k)
                    if (e.st == LIVE)
                        mn = std::min(mn, e.count);
                for (size_t i = 0; i < s.k.size(); ++i)
                    if (s.k[i].st == LIVE && s.k[i].count == mn)
                        v.push_back((int)i);
                break;
            }
            case RR:
                for (size_t i = 0; i < s.k.size(); ++i)
                    if (s.k[i].st == LIVE)
                        v.push_back((int)i);
                break;
            default:
                break;
        }
    }

    static bool order_neq_deadline(const State& s)
    {
        for (size_t i = 0; i < s.k.size(); ++i)
            if (s.k[i].st == LIVE)
                for (size_t j = 0; j < s.k.size(); ++j)
                    if (s.k[j].st == LIVE && s.k[i].wr_seq < s.k[j].wr_seq && s.k[i].deadline > s.k[j].deadline)
                        return true;
        return false;
    }

private:
    template<class F>
    bool elem_all(std::vector<Cand>& cur, std::vector<Cand>& nxt, F f) const
    {
        nxt.clear();
        const size_t hard = 6 * cand_cap();
        for (auto& c : cur)
        {
            f(c, nxt);
            if (nxt.size() > hard)
                return false; // blown up before de-duplication: the case is inconclusive, stop paying for it
        }
        // dedup
        if (nxt.size() > 1)
        {
            std::vector<Cand>     ded;
            std::vector<uint64_t> hs;
            for (auto& c : nxt)
            {
                uint64_t h = c.st.hash();
                for (auto& e : c.er)
                    h = (h ^ ((uint64_t)e.ok + 2 * (uint64_t)e.hit + 4 * e.val + 1024 * e.cnt)) * 1099511628211ULL;
                bool dupl = false;
                for (size_t i = 0; i < ded.size(); ++i)
                    if (hs[i] == h && ded[i].st == c.st && same_er(ded[i].er, c.er))
                    {
                        dupl = true;
                        break;
                    }
                if (!dupl)
                {
                    hs.push_back(h);
                    ded.push_back(std::move(c));
                }
            }
            nxt.swap(ded);
        }
        cur.swap(nxt);
        return cur.size() <= cand_cap();
    }
    static bool same_er(const std::vector<ElemRes>& a, const std::vector<ElemRes>& b)
    {
        if (a.size() != b.size())
            return false;
        for (size_t i = 0; i < a.size(); ++i)
            if (a[i].ok != b[i].ok || a[i].hit != b[i].hit || a[i].val != b[i].val || a[i].cnt != b[i].cnt)
                return false;
        return true;
    }

    // tlru / utlru: after an element that is not a full insert of a new key, any number of the
    // expired residents may additionally have been dropped.
    void with_drops(Cand&& c, std::vector<Cand>& out) const
    {
        if (!ttllru() || c.st.r == 0)
        {
            out.push_back(std::move(c));
            return;
        }
        int r = c.st.r;
        for (int rr = 0; rr < r; ++rr)
        {
            Cand d = c;
            d.st.r = rr;
            d.ev |= EV_REAP;
            if (rr == 0)
                clear_u(d.st);
            out.push_back(std::move(d));
        }
        out.push_back(std::move(c));
    }

    int aging_point(Cand& c, int64_t now, bool inside_insert) const
    {
        int     n = 0, res = 0;
        bool    exact = false;
        int64_t tick  = cfg.tick_ms * 1000000LL;
        for (auto& e : c.st.k)
            if (e.st == LIVE)
            {
                ++res;
                if (e.touch + tick < now)
                {
                    e.count = (e.count * (uint64_t)cfg.ratio_q) / 4;
                    e.touch = now;
                    ++n;
                }
                else if (e.touch + tick == now)
                    exact = true;
            }
        if (n > 0)
        {
            c.ev |= EV_AGING_ANY;
            if (n < res)
                c.ev |= EV_AGING_PARTIAL;
            if (inside_insert)
                c.ev |= EV_AGING_IN_INSERT;
        }
        if (exact)
            c.ev |= EV_AGING_STRICT;
        c.aged += n;
        return n;
    }

    void write_entry(State& s, int k, uint64_t v, int64_t now, int64_t ttl_ms, bool fresh) const
    {
        KS& e = s.k[(size_t)k];
        e.val = (cfg.kind == UTSET) ? SET_MEMBER : v;
        ++s.seq;
        if (fresh)
        {
            e.ins_seq = s.seq;
            e.count   = 1;
            e.moved   = 0;
            e.lastuse = 0;
            ++e.gen;
        }
        else
        {
            e.count += 1;
            e.moved   = 1;
            e.lastuse = 1;
        }
        e.use_seq  = s.seq;
        e.wr_seq   = s.seq;
        e.inferred = in_range_op ? 1 : 0;
        e.touch   = now;
        e.wtime   = now;
        e.st      = LIVE;
        if (ttl())
        {
            int64_t d  = (cfg.kind == TLRU) ? ttl_ms : s.ttl_cfg;
            e.deadline = now + d * 1000000LL;
        }
    }

    // insert of a key that occupies no slot; handles "full" by evicting according to the policy
    void insert_new(Cand&& c, int k, uint64_t v, int64_t now, int64_t ttl_ms, std::vector<Cand>& out) const
    {
        State& s = c.st;
        c.ev |= EV_INSERT_NEW;
        ElemRes er;
        er.ok = true;
        if (!full(s))
        {
            write_entry(s, k, v, now, ttl_ms, true);
            c.written.push_back(k);
            c.er.push_back(er);
            with_drops(std::move(c), out);
            return;
        }
        // full insert of a new key: exactly one resident leaves
        if (s.since_full_erases > 0)
            c.ev |= EV_EVICT_AFTER_GAP;
        s.since_full_erases = 0;
        ++s.chain;
        if (s.chain >= 3)
            c.ev |= EV_EVICT_CHAIN3;
        if (ttllru() && s.r > 0)
        {
            c.ev |= EV_EVICT_EXPIRED;
            if (s.live() > 0)
                c.ev |= EV_EVICT_MIXED;
            --s.r;
            if (s.r == 0)
                clear_u(s);
            write_entry(s, k, v, now, ttl_ms, true);
            s.last_evict_new = k;
            c.er.push_back(er);
            out.push_back(std::move(c));
            return;
        }
        if (cfg.kind == LFUDA)
            aging_point(c, now, true);
        std::vector<int> vs;
        victims_of(s, vs);
        // trigger bookkeeping on the pre-eviction residents
        uint64_t oldest = UINT64_MAX, newest = 0, mincnt = UINT64_MAX, maxcnt = 0;
        int      oldest_k = -1, newest_k = -1;
        for (size_t i = 0; i < s.k.size(); ++i)
            if (s.k[i].st == LIVE)
            {
                if (s.k[i].ins_seq < oldest)
                {
                    oldest   = s.k[i].ins_seq;
                    oldest_k = (int)i;
                }
                if (s.k[i].ins_seq >= newest)
                {
                    newest   = s.k[i].ins_seq;
                    newest_k = (int)i;
                }
                mincnt = std::min(mincnt, s.k[i].count);
                maxcnt = std::max(maxcnt, s.k[i].count);
            }
        for (int vk : vs)
        {
            Cand d = c;
            d.ev |= EV_EVICT;
            if (vk != oldest_k && vk != newest_k)
                d.ev |= EV_EVICT_NONTRIV;
            if (d.st.k[(size_t)vk].lastuse != 0)
                d.ev |= EV_EVICT_VICTIM_UPD;
            if (kind_has_counts(cfg.kind) && mincnt != maxcnt && newest_k >= 0 && s.k[(size_t)newest_k].count != mincnt)
                d.ev |= EV_LFU_MULTI;
            if (vk == s.last_evict_new)
                d.ev |= EV_MRU_NEXT;
            for (int w : d.written)
                if (w == vk)
                    d.ev |= EV_RANGE_OVERCAP;
            d.written.push_back(k);
            KS& ve = d.st.k[(size_t)vk];
            ve.st  = ABSENT;
            ve.why = W_EVICTED;
            d.victims.push_back(vk);
            write_entry(d.st, k, v, now, ttl_ms, true);
            d.st.last_evict_new = k;
            d.er.push_back(er);
            out.push_back(std::move(d));
        }
    }

    // Each element of a range is the single-key operation applied at the same instant: it starts, like
    // the single form, by noticing what has expired (an entry written with TTL 0 by an earlier element).
    Cand pre_elem(const Cand& cin, int64_t now) const
    {
        Cand c = cin;
        if (ttl())
        {
            if (expire(c.st, now) > 0)
                c.ev |= EV_EXPIRE;
            if (utm() && c.st.r > 0)
                clear_u(c.st);
        }
        return c;
    }

    void elem_insert(const Cand& cin, int k, uint64_t v, int allow, int64_t ttl_ms, int64_t now, std::vector<Cand>& out) const
    {
        const Cand c0 = pre_elem(cin, now);
        const KS& e0 = c0.st.k[(size_t)k];
        // did an earlier element of this same op insert a key that is being evicted now? (flagged below)
        if (e0.st == LIVE)
        {
            Cand    c = c0;
            ElemRes er;
            if (allow & A_UPDATE)
            {
                er.ok = true;
                c.ev |= EV_UPDATE;
                write_entry(c.st, k, v, now, ttl_ms, false);
            }
            else
            {
                er.ok = false;
                c.ev |= EV_REJECT;
            }
            c.er.push_back(er);
            with_drops(std::move(c), out);
            return;
        }
        if (e0.st == EXPU)
        {
            // expired but possibly still resident (tlru / utlru only; ut_map / ut_set purge first)
            if (allow == A_UPDATE)
            {
                // may fail, leaving the key absent ...
                Cand    c = c0;
                ElemRes er;
                er.ok = false;
                c.ev |= EV_UPD_ON_U_FALSE;
                c.er.push_back(er);
                with_drops(std::move(c), out);
                // ... or succeed, making the entry live again: only possible if it really is resident
                if (c0.st.r >= 1)
                {
                    Cand    d = c0;
                    ElemRes er2;
                    er2.ok = true;
                    d.ev |= EV_UPD_ON_U_TRUE;
                    --d.st.r;
                    d.st.k[(size_t)k].st = ABSENT;
                    write_entry(d.st, k, v, now, ttl_ms, false);
                    d.st.k[(size_t)k].moved = 1;
                    d.er.push_back(er2);
                    if (d.st.r == 0)
                        clear_u(d.st);
                    with_drops(std::move(d), out);
                }
                return;
            }
            // allow::insert / insert_or_update: always succeeds
            if (c0.st.r >= 1)
            {
                // (i) overwritten in place
                Cand    d = c0;
                ElemRes er;
                er.ok = true;
                d.ev |= EV_OVERWRITE_EXP;
                --d.st.r;
                d.st.k[(size_t)k].st = ABSENT;
                bool was_gen         = true;
                (void)was_gen;
                write_entry(d.st, k, v, now, ttl_ms, true);
                d.er.push_back(er);
                if (d.st.r == 0)
                    clear_u(d.st);
                with_drops(std::move(d), out);
            }
            if (c0.st.ucount() - 1 >= c0.st.r)
            {
                // (ii) its old entry is no longer resident: inserted like any new key
                Cand d = c0;
                d.ev |= EV_OVERWRITE_EXP;
                d.st.k[(size_t)k].st  = ABSENT;
                d.st.k[(size_t)k].why = W_EXPIRED;
                insert_new(std::move(d), k, v, now, ttl_ms, out);
            }
            return;
        }
        // ABSENT
        if (allow & A_INSERT)
        {
            Cand c = c0;
            insert_new(std::move(c), k, v, now, ttl_ms, out);
        }
        else
        {
            Cand    c = c0;
            ElemRes er;
            er.ok = false;
            c.ev |= EV_REJECT;
            c.er.push_back(er);
            with_drops(std::move(c), out);
        }
    }

    void elem_erase(const Cand& cin, int k, int64_t now, std::vector<Cand>& out) const
    {
        const Cand c0 = pre_elem(cin, now);
        const KS& e0 = c0.st.k[(size_t)k];
        if (e0.st == LIVE)
        {
            Cand    c = c0;
            ElemRes er;
            er.ok = true;
            c.ev |= EV_ERASE_OK;
            c.st.k[(size_t)k].st  = ABSENT;
            c.st.k[(size_t)k].why = W_ERASED;
            ++c.st.since_full_erases;
            c.st.chain = 0;
            c.er.push_back(er);
            with_drops(std::move(c), out);
            return;
        }
        if (e0.st == EXPU)
        {
            {
                Cand    c = c0;
                ElemRes er;
                er.ok = false;
                c.er.push_back(er);
                with_drops(std::move(c), out);
            }
            if (c0.st.r >= 1)
            {
                Cand    d = c0;
                ElemRes er;
                er.ok = true;
                --d.st.r;
                d.st.k[(size_t)k].st  = ABSENT;
                d.st.k[(size_t)k].why = W_ERASED;
                d.ev |= EV_REAP;
                if (d.st.r == 0)
                    clear_u(d.st);
                d.er.push_back(er);
                with_drops(std::move(d), out);
            }
            return;
        }
        Cand    c = c0;
        ElemRes er;
        er.ok = false;
        c.ev |= EV_ERASE_ABSENT;
        c.er.push_back(er);
        with_drops(std::move(c), out);
    }

    void elem_find(const Cand& cin, int k, bool peek, int64_t now, std::vector<Cand>& out) const
    {
        Cand    c = pre_elem(cin, now);
        KS&     e = c.st.k[(size_t)k];
        ElemRes er;
        if (e.st == LIVE)
        {
            er.hit = true;
            er.val = e.val;
            if (e.gen >= 3)
                c.ev |= EV_HIT_RECYCLED;
            if (e.moved)
                c.ev |= EV_HIT_MOVED_DL;
            if (ttl() && e.deadline - 1 == now)
                c.ev |= e.moved ? (EV_HIT_BEFORE_DL | EV_HIT_MOVED_BEFORE) : EV_HIT_BEFORE_DL;
            bool counts = kind_has_peek(cfg.kind) && !peek;
            if (counts)
            {
                ++c.st.seq;
                e.use_seq = c.st.seq;
                e.count += 1;
                e.touch   = now;
                e.lastuse = 2;
                c.ev |= EV_USE;
            }
            else
                c.ev |= EV_PEEK_HIT;
            er.cnt = e.count;
            if (e.count >= 3)
                c.ev |= EV_CNT3;
        }
        else
        {
            c.ev |= EV_MISS;
            if (e.why == W_EXPIRED && e.deadline == now)
                c.ev |= EV_MISS_AT_DL;
            if (e.st == EXPU)
                c.ev |= EV_EXPIRED_LOOKUP;
        }
        c.er.push_back(er);
        with_drops(std::move(c), out);
    }

    void build_res(const Op& op, const Cand& c, Res& r) const
    {
        r.clear();
        switch (op.kind)
        {
            case INS:
            case ERA:
                r.b = c.er[0].ok;
                break;
            case INSR:
            case INSI:
            case ERAR:
            case ERAI:
                for (auto& e : c.er)
                    r.n += e.ok ? 1 : 0;
                break;
            case FND:
            case FUC:
            case FNDR:
            case FNDF:
            case FNDI:
            case FNDFI:
                for (size_t i = 0; i < c.er.size(); ++i)
                {
                    r.keys.push_back(op.kind == FND || op.kind == FUC ? op.k : op.items[i].k);
                    r.vals.push_back(c.er[i].hit ? std::optional<uint64_t>(c.er[i].val) : std::nullopt);
                }
                if (op.kind == FUC && c.er[0].hit)
                    r.cnt = c.er[0].cnt;
                break;
            case CLEAN:
            case AGE:
                r.n = c.er[0].cnt;
                break;
            case SIZE:
                r.n = size_result(c.st);
                break;
            case EMPTY:
                r.b = size_result(c.st) == 0;
                break;
            case CAP:
                r.n = (uint64_t)cfg.cap;
                break;
            default:
                break;
        }
    }
};

inline bool res_equal(const Op& op, const Res& a, const Res& b)
{
    switch (op.kind)
    {
        case INS:
        case ERA:
        case EMPTY:
            return a.b == b.b;
        case INSR:
        case INSI:
        case ERAR:
        case ERAI:
        case CLEAN:
        case AGE:
        case SIZE:
        case CAP:
            return a.n == b.n;
        case FND:
        case FUC:
        case FNDR:
        case FNDF:
        case FNDI:
        case FNDFI:
            return a.keys == b.keys && a.vals == b.vals && a.cnt == b.cnt;
        default:
            return true;
    }
}

} // namespace vh
