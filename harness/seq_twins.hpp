// Differential twins (DESIGN.md 3.6) and replay.  Included by seq_driver.cpp.
#pragma once

static uint64_t g_twin_compared = 0; // results / probes / audit rows compared between the twins
static uint64_t g_twin_spliced  = 0; // no-effect calls spliced into A only (twin-noop)

struct TwinOp
{
    Op   op;
    bool a_only{false};
    bool audit{false};
};

static bool rows_equal(const std::vector<AuditRow>& a, const std::vector<AuditRow>& b, std::string& why)
{
    for (size_t k = 0; k < a.size() && k < b.size(); ++k)
    {
        if (a[k].looked != b[k].looked)
            continue;
        if (!a[k].looked)
            continue;
        ++g_twin_compared;
        if (a[k].val != b[k].val || a[k].cnt != b[k].cnt)
        {
            why = "key " + std::to_string(k) + ": A " + (a[k].val ? std::to_string(*a[k].val) : std::string("-")) +
                  (a[k].cnt ? "#" + std::to_string(*a[k].cnt) : std::string()) + "  B " + (b[k].val ? std::to_string(*b[k].val) : std::string("-")) +
                  (b[k].cnt ? "#" + std::to_string(*b[k].cnt) : std::string());
            return false;
        }
    }
    return true;
}

// Is this op, in model state s, one whose result C19 exempts from comparison in TTL containers
// (an update-only insert or an erase addressed to an expired-but-unreaped key; clean's count)?
// "Expired" is judged for twin B as well, which did not execute the spliced calls and may still hold an
// entry that A has already discarded: any key whose last entry ended by expiry and has not been written since.
static bool exp_key(const State& s, int k)
{
    const KS& e = s.k[(size_t)k];
    return e.st == EXPU || (e.st == ABSENT && e.why == W_EXPIRED);
}
static bool noop_exempt(const Cfg& cfg, const State& s, const Op& op)
{
    if (!kind_is_ttl(cfg.kind))
        return false;
    if (op.kind == CLEAN)
        return true;
    if (op.kind == INS && op.allow == A_UPDATE && exp_key(s, op.k))
        return true;
    if (op.kind == ERA && exp_key(s, op.k))
        return true;
    if ((op.kind == INSR || op.kind == INSI) && op.allow == A_UPDATE)
        for (auto& it : op.items)
            if (exp_key(s, it.k))
                return true;
    if (op.kind == ERAR || op.kind == ERAI)
        for (auto& it : op.items)
            if (exp_key(s, it.k))
                return true;
    return false;
}

static CaseResult run_twin_case_impl(Runner& R, uint64_t case_seed, const std::string& mode, const CasePlan* fixed_plan,
                                     const std::vector<TwinOp>* fixed_ops, bool print)
{
    const Options& opt = R.opt;
    CaseResult     cr;
    Generator      gen(case_seed);
    CasePlan       plan;
    if (fixed_plan)
    {
        plan     = *fixed_plan;
        gen.plan = plan;
    }
    else
    {
        int profile = opt.profiles[gen.rng.below(opt.profiles.size())];
        plan        = gen.make_plan(opt.kind, profile, opt.typesets, opt.ts, opt.nops_lo, opt.nops_hi);
    }
    const Cfg& cfg   = plan.cfg;
    const bool RANGE = mode == "twin-range", NOOP = mode == "twin-noop", CLEARM = mode == "twin-clear";
    const char* P    = RANGE ? "C18" : (NOOP ? "C19" : "C20");
    cr.cfg_text      = cfg_to_text(cfg) + " # profile=" + profile_names[plan.profile] + " audit=" + std::to_string(plan.audit_mode) + " skipU=" +
                  std::to_string(plan.audit_skip_u ? 1 : 0) + " mode=" + mode;
    ++R.profile_cases[profile_names[plan.profile]];
    vclock::set(T0);
    tracked_reset();
    journal_begin(cfg_to_text(cfg), mode, case_seed);
    vrandom::seed(cfg.rseed);
    std::unique_ptr<ICache> A(make_cache(cfg));
    vrandom::seed(cfg.rseed);
    std::unique_ptr<ICache> B(make_cache(cfg));
    Monitor                 mon(cfg, &R.ctr);
    uint64_t                h = hash_str(cfg_to_text(cfg) + mode);
    Res                     ra, rb, rtmp;
    Probe                   pa, pb;
    std::vector<AuditRow>   rowsA, rowsB;
    size_t                  nops        = fixed_ops ? fixed_ops->size() : (size_t)plan.nops;
    int                     since_event = 1000; // ops since the last range / splice / clear (trigger: continuation length)
    bool                    had_event   = false;
    bool                    size_suspended = false;
    bool                    mon_failed = false;
    Violation               mon_viol;
    size_t                  continuation = 0;
    if (print)
        std::printf("%s\n", cr.cfg_text.c_str());

    auto fail = [&](const std::string& tag, const std::string& detail, size_t i) {
        cr.violated      = true;
        cr.viol.tags     = {tag};
        cr.viol.detail   = detail;
        cr.viol.op_index = (int)i;
    };

    for (size_t i = 0; i < nops && !cr.violated; ++i)
    {
        TwinOp top;
        if (fixed_ops)
            top = (*fixed_ops)[i];
        else
        {
            if (NOOP && gen.rng.chance(3, 10))
            {
                top.op     = gen.noop_call(mon.model, mon.state());
                top.a_only = true;
            }
            else
                top.op = gen.next(mon.model, mon.state(), vclock::now());
            if (CLEARM && !fixed_ops && top.op.kind != CLEAR && gen.rng.chance(1, 25))
            {
                top.op      = Op{};
                top.op.kind = CLEAR;
            }
        }
        const Op&   op   = top.op;
        std::string line = std::string(top.a_only ? "~ " : "") + op_to_text(op);
        journal_line(line);
        h = hash_ops(h, line);
        const State pre = mon.state();

        // ---- A ----
        Runner::exec(A.get(), op, ra);
        int64_t now = vclock::now();
        A->probe(pa);
        Violation v;
        bool      okA = mon.step(op, ra, pa, nullptr, now, v);
        if (!okA)
        {
            // The follower lost track of A (a sequential clause is violated).  The twins themselves are still
            // comparable: finish this step's comparison - including an audit of both - so that a difference between
            // the twins is reported under this check's property as well, then stop.
            mon_failed       = true;
            {
                std::vector<AuditRow> rowsX;
                run_audit(A.get(), cfg, &pre, plan.audit_skip_u && kind_is_ttllru(cfg.kind), rowsX);
                Violation v2;
                mon.explain_with_audit(op, ra, pa, rowsX, now, v2);
                if (!v2.tags.empty())
                    v = v2;
                // (A alone gets these extra side-effect-free lookups: they are no-effect calls by specification)
            }
            mon_viol         = v;
            mon_viol.op_index = (int)i;
            if (top.a_only)
            {
                cr.lines.push_back(line + "  -> " + res_to_text(op, ra) + "  size=" + std::to_string(pa.size));
                cr.violated = true;
                cr.viol     = mon_viol;
                break;
            }
        }
        if (mon.inconclusive)
        {
            cr.inconclusive = true;
            break;
        }
        if (top.a_only)
        {
            // the specification chose this call as one without effect; A's own answer must confirm it
            // (the follower's first candidate can be wrong about an unobserved victim).  If A says the
            // call did take effect it is simply part of the history: B executes it too.
            bool confirmed = true;
            if (op.kind == INS || op.kind == ERA)
                confirmed = !ra.b;
            else if (op_is_find(op.kind) && !op.peek)
                for (auto& v : ra.vals)
                    if (v)
                        confirmed = false;
            if (!confirmed)
                top.a_only = false;
        }
        if (top.a_only)
        {
            ++g_twin_spliced;
            had_event    = true;
            since_event  = 0;
            cr.lines.push_back(line + "  -> " + res_to_text(op, ra) + "  (A only)");
            if (print)
                std::printf("%4zu  %s\n", i, cr.lines.back().c_str());
            continue;
        }

        // ---- B ----
        bool        is_clock = op.kind == ADV || op.kind == SET;
        std::string bdesc;
        if (is_clock)
            rb = ra;
        else if (CLEARM && op.kind == CLEAR)
        {
            // B becomes a freshly constructed container with A's capacity and currently configured TTL
            std::string derr = B->destroy_check();
            B.reset();
            if (!derr.empty())
                fail("C08.destroy", derr, i);
            Cfg c2    = cfg;
            c2.ttl_ms = mon.state().ttl_cfg;
            vrandom::seed(cfg.rseed);
            B.reset(make_cache(c2));
            rb          = ra;
            had_event   = true;
            since_event = 0;
        }
        else if (RANGE && op_is_range(op.kind))
        {
            rb.clear();
            had_event   = true;
            since_event = 0;
            for (auto& it : op.items)
            {
                Op s;
                if (op_is_insert(op.kind))
                {
                    s.kind  = INS;
                    s.allow = op.allow;
                    s.v     = it.v;
                    s.ttl   = it.ttl;
                }
                else if (op_is_erase(op.kind))
                    s.kind = ERA;
                else
                {
                    s.kind = FND;
                    s.peek = op.peek;
                }
                s.k = it.k;
                guarded_apply(B.get(), s, rtmp);
                if (s.kind == FND)
                {
                    rb.keys.push_back(it.k);
                    rb.vals.push_back(rtmp.vals.empty() ? std::nullopt : rtmp.vals[0]);
                }
                else if (rtmp.b)
                    ++rb.n;
            }
        }
        else
            guarded_apply(B.get(), op, rb);
        B->probe(pb);

        // ---- compare results ----
        bool exempt = NOOP && noop_exempt(cfg, pre, op);
        // twin-range on ut_map / ut_set: after an empty range (A purged, B made no call) clean's count may differ
        bool skip_clean_cmp = RANGE && size_suspended && op.kind == CLEAN;
        if (!is_clock && !(CLEARM && op.kind == CLEAR))
        {
            ++g_twin_compared;
            bool same = skip_clean_cmp || res_equal(op, ra, rb);
            if (exempt && op_is_range(op.kind))
            {
                // An update-only / erase *range* addressed to expired keys: the twins may legitimately have
                // revived or dropped different elements even when the counts agree, and nothing observable
                // says which.  C19 exempts exactly these results, so the comparison of this case ends here.
                cr.lines.push_back(line + "  -> A " + res_to_text(op, ra) + " / B " + res_to_text(op, rb) + "  (exempt range on expired keys; case ends)");
                break;
            }
            if (!same)
            {
                if (exempt)
                {
                    // legitimately divergent from here on (C19's stated exemption): stop comparing this case
                    cr.lines.push_back(line + "  -> A " + res_to_text(op, ra) + " / B " + res_to_text(op, rb) + "  (exempt divergence; case ends)");
                    break;
                }
                std::string sub = RANGE && op_is_range(op.kind) ? (op_is_find(op.kind) ? ((ra.keys != rb.keys) ? ".order" : ".lookup") : ".count") : ".later";
                fail(std::string(P) + sub, std::string(opk_names[op.kind]) + ": A returned " + res_to_text(op, ra) + ", B returned " + res_to_text(op, rb), i);
            }
        }
        // ---- compare observers ----
        if (!cr.violated)
        {
            bool cmp_size = !(NOOP && kind_is_ttl(cfg.kind));
            if (RANGE && (cfg.kind == UTMAP || cfg.kind == UTSET))
            {
                // an empty range is zero single calls: A's (empty) call still purges expired entries, B makes no
                // call at all, so until the next purging call on both size() may legitimately differ (C02 pins
                // size() only right after an insert / erase / lookup / clean)
                bool purging = op_is_insert(op.kind) || op_is_erase(op.kind) || op_is_find(op.kind) || op.kind == CLEAN;
                if (op_is_range(op.kind) && op.items.empty())
                    size_suspended = true;
                else if (purging)
                    size_suspended = false;
                if (size_suspended)
                    cmp_size = false;
            }
            ++g_twin_compared;
            if (pa.cap != pb.cap || (cmp_size && (pa.size != pb.size || pa.empty != pb.empty)))
                fail(std::string(P) + ".state", "after " + std::string(opk_names[op.kind]) + ": A size=" + std::to_string(pa.size) + " B size=" + std::to_string(pb.size), i);
            if (CLEARM && op.kind == CLEAR && (pa.size != 0 || !pa.empty))
                fail("C20.empty", "size() = " + std::to_string(pa.size) + " after clear()", i);
        }
        // ---- audits (same keys on both) ----
        bool do_audit = plan.audit_mode == 2 || (plan.audit_mode == 1 && (i % 4) == 3) || i + 1 == nops || (CLEARM && op.kind == CLEAR);
        if (fixed_ops && plan.audit_mode == 3)
            do_audit = top.audit;
        if (!cr.violated && (do_audit || mon_failed))
        {
            bool skip = plan.audit_skip_u && kind_is_ttllru(cfg.kind);
            journal_line("# audit");
            const State snap = mon.state();
            run_audit(A.get(), cfg, &snap, skip, rowsA);
            run_audit(B.get(), cfg, &snap, skip, rowsB);
            Probe p2;
            A->probe(p2);
            Violation v2;
            bool      ok = true;
            if (!mon_failed)
            {
                ok = mon.audit_filter(op, ra, pa, rowsA, now, v2);
                if (ok)
                    ok = monitor_post_audit(mon, p2, now, rowsA, v2);
                if (!ok)
                {
                    mon_failed        = true;
                    mon_viol          = v2;
                    mon_viol.op_index = (int)i;
                }
            }
            {
                std::string why;
                if (!rows_equal(rowsA, rowsB, why))
                    fail(std::string(P) + ".state", "audit after " + std::string(opk_names[op.kind]) + " differs: " + why, i);
                if (CLEARM && op.kind == CLEAR)
                    for (size_t k = 0; k < rowsA.size(); ++k)
                        if (rowsA[k].looked && rowsA[k].val)
                            fail("C20.empty", "key " + std::to_string(k) + " found after clear()", i);
            }
            line += "   audit=" + audit_to_text(rowsA);
        }
        cr.lines.push_back(line + "  -> " + res_to_text(op, ra) + "  size=" + std::to_string(pa.size) + (kind_is_ttl(cfg.kind) || cfg.kind == LFUDA ? "  t=" + std::to_string(now - T0) : ""));
        if (print)
            std::printf("%4zu  %s%s\n", i, cr.lines.back().c_str(), cr.violated ? "   <== twins differ" : "");
        if (mon_failed)
        {
            if (cr.violated)
            {
                // the twins differ as well: report both the sequential clause and this check's clause
                for (auto& t : mon_viol.tags)
                    cr.viol.tags.push_back(t);
                cr.viol.detail += " | follower: " + mon_viol.detail;
            }
            else
            {
                cr.violated = true;
                cr.viol     = mon_viol;
            }
            break;
        }
        if (had_event && !op_is_range(op.kind))
        {
            ++since_event;
            if ((size_t)since_event > continuation)
                continuation = (size_t)since_event;
        }
    }
    // destruction
    for (auto* c : {&A, &B})
    {
        if (!*c)
            continue;
        std::string derr = (*c)->destroy_check();
        c->reset();
        if (!derr.empty() && !cr.violated)
            fail("C08.destroy", derr, cr.lines.size());
    }
    if (!cr.violated && tracked_live() != 0)
        fail("C08.destroy", "Tracked: " + std::to_string(tracked_live()) + " value object(s) never destroyed", cr.lines.size());
    cr.ev = mon.case_ev;
    // twin trigger: the event (range / splice / clear) happened and was followed by a continuation of >= 10 compared ops
    if (had_event && continuation >= 10)
        cr.ev |= (1ull << 62);
    cr.hash = h;
    return cr;
}

static CaseResult run_twin_case(Runner& R, uint64_t case_seed, const std::string& mode)
{
    return run_twin_case_impl(R, case_seed, mode, nullptr, nullptr, false);
}

// ---------------------------------------------------------------------------------------------
// Replay file: optional "# mode=<mode>" line, a NEW line, then one op per line ("~ " prefix: A only).
static int replay_main(Runner& R, const std::string& path)
{
    std::ifstream f(path);
    if (!f)
    {
        std::fprintf(stderr, "HARNESS-FAILURE: cannot open %s\n", path.c_str());
        return 2;
    }
    std::string         line, mode = "model";
    CasePlan            plan;
    std::vector<TwinOp> ops;
    bool                have_cfg = false, explicit_audit = false;
    plan.audit_mode              = 2;
    plan.audit_skip_u            = true;
    while (std::getline(f, line))
    {
        if (line.empty())
            continue;
        if (line.compare(0, 7, "# audit") == 0)
        {
            if (!ops.empty())
                ops.back().audit = true;
            explicit_audit = true;
            continue;
        }
        if (line.compare(0, 9, "# destroy") == 0)
            continue;
        if (line[0] == '#')
        {
            auto p = line.find("mode=");
            if (p != std::string::npos)
            {
                std::istringstream is(line.substr(p + 5));
                is >> mode;
            }
            p = line.find("audit=");
            if (p != std::string::npos)
                plan.audit_mode = std::atoi(line.c_str() + p + 6);
            p = line.find("skipU=");
            if (p != std::string::npos)
                plan.audit_skip_u = std::atoi(line.c_str() + p + 6) != 0;
            continue;
        }
        if (line.compare(0, 3, "NEW") == 0)
        {
            auto hashpos = line.find('#');
            std::string cfgline = hashpos == std::string::npos ? line : line.substr(0, hashpos);
            if (hashpos != std::string::npos)
            {
                auto p = line.find("audit=");
                if (p != std::string::npos)
                    plan.audit_mode = std::atoi(line.c_str() + p + 6);
                p = line.find("skipU=");
                if (p != std::string::npos)
                    plan.audit_skip_u = std::atoi(line.c_str() + p + 6) != 0;
                p = line.find("mode=");
                if (p != std::string::npos)
                {
                    std::istringstream is(line.substr(p + 5));
                    is >> mode;
                }
            }
            if (!cfg_from_text(cfgline, plan.cfg))
            {
                std::fprintf(stderr, "HARNESS-FAILURE: bad NEW line\n");
                return 2;
            }
            have_cfg = true;
            continue;
        }
        TwinOp t;
        std::string l = line;
        if (l.compare(0, 2, "~ ") == 0)
        {
            t.a_only = true;
            l        = l.substr(2);
        }
        if (l.find("audit=") != std::string::npos)
        {
            t.audit        = true;
            explicit_audit = true;
        }
        // strip any recorded result ("  -> ...") or audit annotation
        auto arrow = l.find("  ");
        if (arrow != std::string::npos)
            l = l.substr(0, arrow);
        if (!op_from_text(l, t.op))
        {
            std::fprintf(stderr, "HARNESS-FAILURE: bad op line: %s\n", line.c_str());
            return 2;
        }
        ops.push_back(t);
    }
    if (!have_cfg)
    {
        std::fprintf(stderr, "HARNESS-FAILURE: replay file has no NEW line\n");
        return 2;
    }
    R.opt.kind = plan.cfg.kind;
    if (explicit_audit)
    {
        plan.audit_mode = 3;
        if (!ops.empty())
            ops.back().audit = true;
    }
    CaseResult cr;
    if (mode == "model")
    {
        std::vector<Op>   o;
        std::vector<char> au;
        for (auto& t : ops)
        {
            o.push_back(t.op);
            au.push_back(t.audit ? 1 : 0);
        }
        cr = R.run_model_case(1, &plan, &o, true, explicit_audit ? &au : nullptr);
    }
    else
        cr = run_twin_case_impl(R, 1, mode, &plan, &ops, true);
    if (cr.violated)
    {
        std::string tags;
        for (auto& t : cr.viol.tags)
            tags += t + " ";
        std::printf("REPLAY: violated at op %d: %s: %s\n", cr.viol.op_index, tags.c_str(), cr.viol.detail.c_str());
        return 1;
    }
    std::printf("REPLAY: no violation (%zu ops)\n", cr.lines.size());
    return 0;
}
