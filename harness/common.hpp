// Shared vocabulary of the harness: configuration, abstract operations, observed results,
// a small PRNG and the text form used in journals and replay files.
#pragma once
#include <cstdint>
#include <cstdio>
#include <cstdlib>
#include <cstring>
#include <optional>
#include <sstream>
#include <string>
#include <vector>

namespace vh
{
// ---------------------------------------------------------------------------------------------
enum Kind : int
{
    FIFO = 0,
    LFU,
    LFUDA,
    LRU,
    MRU,
    RR,
    TLRU,
    UTLRU,
    UTMAP,
    UTSET,
    NKINDS
};
static const char* const kind_names[NKINDS] = {"fifo", "lfu", "lfuda", "lru", "mru", "rr", "tlru", "utlru", "ut_map", "ut_set"};
inline int               kind_from_name(const std::string& s)
{
    for (int i = 0; i < NKINDS; ++i)
        if (s == kind_names[i])
            return i;
    return -1;
}
inline bool kind_has_capacity(int k) { return k != UTMAP && k != UTSET; }
inline bool kind_is_ttl(int k) { return k == TLRU || k == UTLRU || k == UTMAP || k == UTSET; }
inline bool kind_is_ttllru(int k) { return k == TLRU || k == UTLRU; }
inline bool kind_has_peek(int k) { return k == LRU || k == MRU || k == TLRU || k == UTLRU || k == LFU || k == LFUDA; }
inline bool kind_has_counts(int k) { return k == LFU || k == LFUDA; }
inline bool kind_has_clear(int k) { return k == UTLRU || k == UTMAP; }
inline bool kind_has_clean(int k) { return kind_is_ttl(k); }

enum Allow : int
{
    A_INSERT = 1,
    A_UPDATE = 2,
    A_UPSERT = 3
};

struct Cfg
{
    int      kind{LRU};
    int      typeset{0}; // 0: u64/u64   1: string/Tracked   2: CollidingKey/shared_ptr<u64>
    bool     ts{true};   // thread_safe::yes ?
    int      cap{4};
    float    mlf{1.0f};
    int64_t  ttl_ms{100}; // utlru / ut_map / ut_set configured ttl
    int64_t  tick_ms{5};  // lfuda
    int      ratio_q{2};  // lfuda ratio = ratio_q / 4
    uint64_t rseed{1};    // injected random_device seed (rr)
    int      universe{6};
};

// ---------------------------------------------------------------------------------------------
enum OpK : int
{
    INS = 0, // k v allow [ttl]
    INSR,    // range insert
    INSI,    // fifo iterator-pair insert
    ERA,
    ERAR,
    ERAI, // fifo iterator-pair erase
    FND,  // k peek
    FNDR,
    FNDF,  // find_range_fill
    FNDI,  // fifo iterator-pair find
    FNDFI, // fifo iterator-pair find_range_fill
    FUC,   // find_with_use_count
    SIZE,
    EMPTY,
    CAP,
    CLEAN,
    AGE,
    CLEAR,
    SETTTL,
    // harness actions
    ADV,
    SET,
    NOPK
};
static const char* const opk_names[] = {"INS",  "INSR", "INSI", "ERA",   "ERAR", "ERAI",  "FND",    "FNDR", "FNDF", "FNDI", "FNDFI",
                                        "FUC",  "SIZE", "EMPTY", "CAP",  "CLEAN", "AGE",  "CLEAR",  "SETTTL", "ADV", "SET",  "NOP"};

inline bool op_is_insert(int k) { return k == INS || k == INSR || k == INSI; }
inline bool op_is_erase(int k) { return k == ERA || k == ERAR || k == ERAI; }
inline bool op_is_find(int k) { return k == FND || k == FNDR || k == FNDF || k == FNDI || k == FNDFI || k == FUC; }
inline bool op_is_range(int k) { return k == INSR || k == INSI || k == ERAR || k == ERAI || k == FNDR || k == FNDF || k == FNDI || k == FNDFI; }

struct Item
{
    int      k{0};
    uint64_t v{0};
    int64_t  ttl{0}; // ms, tlru only
};

struct Op
{
    int               kind{NOPK};
    int               k{0};
    uint64_t          v{0};
    int               allow{A_UPSERT};
    bool              peek{false};
    int64_t           ttl{0}; // ms: tlru per-call ttl; SETTTL value.   ns for ADV/SET
    std::vector<Item> items;  // range forms
};

static const uint64_t SET_MEMBER = 0xFFFFFFFFFFFFFFF0ULL; // "value" reported by ut_set on a hit

struct Res
{
    bool                                 b{false};
    uint64_t                             n{0};
    std::vector<int>                     keys; // keys echoed by range lookups
    std::vector<std::optional<uint64_t>> vals; // lookup results (value ids)
    std::optional<uint64_t>              cnt;  // FUC
    void                                 clear()
    {
        b = false;
        n = 0;
        keys.clear();
        vals.clear();
        cnt.reset();
    }
};

struct Probe
{
    uint64_t size{0};
    uint64_t cap{0};
    bool     empty{true};
};

struct AuditRow
{
    bool                    looked{false};
    std::optional<uint64_t> val;
    std::optional<uint64_t> cnt;
};

// ---------------------------------------------------------------------------------------------
struct Rng
{
    uint64_t s;
    explicit Rng(uint64_t seed) : s(seed) {}
    uint64_t next()
    {
        uint64_t z = (s += 0x9E3779B97F4A7C15ULL);
        z          = (z ^ (z >> 30)) * 0xBF58476D1CE4E5B9ULL;
        z          = (z ^ (z >> 27)) * 0x94D049BB133111EBULL;
        return z ^ (z >> 31);
    }
    uint64_t below(uint64_t n) { return n ? next() % n : 0; }
    int      range(int lo, int hi) { return lo + (int)below((uint64_t)(hi - lo + 1)); }
    bool     chance(int num, int den) { return (int)below((uint64_t)den) < num; }
    template<typename T>
    const T& pick(const std::vector<T>& v)
    {
        return v[below(v.size())];
    }
};
inline uint64_t mix(uint64_t a, uint64_t b)
{
    Rng r(a ^ (b * 0xD6E8FEB86659FD93ULL + 0x2545F4914F6CDD1DULL));
    r.next();
    return r.next();
}
inline uint64_t hash_str(const std::string& s)
{
    uint64_t h = 1469598103934665603ULL;
    for (unsigned char c : s)
    {
        h ^= c;
        h *= 1099511628211ULL;
    }
    return h;
}

// ---------------------------------------------------------------------------------------------
// Text form.  One op per line; used for journals (crash attribution), replays and samples.
inline std::string cfg_to_text(const Cfg& c)
{
    char buf[256];
    std::snprintf(
        buf,
        sizeof buf,
        "NEW kind=%s typeset=%d ts=%d cap=%d mlf=%.9g ttl=%lld tick=%lld ratio_q=%d rseed=%llu universe=%d",
        kind_names[c.kind],
        c.typeset,
        c.ts ? 1 : 0,
        c.cap,
        (double)c.mlf,
        (long long)c.ttl_ms,
        (long long)c.tick_ms,
        c.ratio_q,
        (unsigned long long)c.rseed,
        c.universe);
    return buf;
}
inline bool cfg_from_text(const std::string& line, Cfg& c)
{
    std::istringstream is(line);
    std::string        tok;
    is >> tok;
    if (tok != "NEW")
        return false;
    while (is >> tok)
    {
        auto eq = tok.find('=');
        if (eq == std::string::npos)
            return false;
        std::string k = tok.substr(0, eq), v = tok.substr(eq + 1);
        if (k == "kind")
            c.kind = kind_from_name(v);
        else if (k == "typeset")
            c.typeset = std::atoi(v.c_str());
        else if (k == "ts")
            c.ts = std::atoi(v.c_str()) != 0;
        else if (k == "cap")
            c.cap = std::atoi(v.c_str());
        else if (k == "mlf")
            c.mlf = (float)std::atof(v.c_str());
        else if (k == "ttl")
            c.ttl_ms = std::atoll(v.c_str());
        else if (k == "tick")
            c.tick_ms = std::atoll(v.c_str());
        else if (k == "ratio_q")
            c.ratio_q = std::atoi(v.c_str());
        else if (k == "rseed")
            c.rseed = std::strtoull(v.c_str(), nullptr, 10);
        else if (k == "universe")
            c.universe = std::atoi(v.c_str());
    }
    return c.kind >= 0;
}

inline std::string op_to_text(const Op& o)
{
    std::ostringstream os;
    os << opk_names[o.kind];
    switch (o.kind)
    {
        case INS:
            os << ' ' << o.k << ' ' << o.v << ' ' << o.allow << ' ' << o.ttl;
            break;
        case INSR:
        case INSI:
            os << ' ' << o.allow << ' ' << o.items.size();
            for (auto& it : o.items)
                os << ' ' << it.k << ' ' << it.v << ' ' << it.ttl;
            break;
        case ERA:
            os << ' ' << o.k;
            break;
        case FND:
        case FUC:
            os << ' ' << o.k << ' ' << (o.peek ? 1 : 0);
            break;
        case ERAR:
        case ERAI:
            os << ' ' << o.items.size();
            for (auto& it : o.items)
                os << ' ' << it.k;
            break;
        case FNDR:
        case FNDF:
        case FNDI:
        case FNDFI:
            os << ' ' << (o.peek ? 1 : 0) << ' ' << o.items.size();
            for (auto& it : o.items)
                os << ' ' << it.k;
            break;
        case SETTTL:
        case ADV:
        case SET:
            os << ' ' << o.ttl;
            break;
        default:
            break;
    }
    return os.str();
}

inline bool op_from_text(const std::string& line, Op& o)
{
    std::istringstream is(line);
    std::string        name;
    if (!(is >> name))
        return false;
    o      = Op{};
    o.kind = -1;
    for (int i = 0; i <= NOPK; ++i)
        if (name == opk_names[i])
            o.kind = i;
    if (o.kind < 0)
        return false;
    size_t n = 0;
    int    pk = 0;
    switch (o.kind)
    {
        case INS:
            is >> o.k >> o.v >> o.allow >> o.ttl;
            break;
        case INSR:
        case INSI:
            is >> o.allow >> n;
            o.items.resize(n);
            for (auto& it : o.items)
                is >> it.k >> it.v >> it.ttl;
            break;
        case ERA:
            is >> o.k;
            break;
        case FND:
        case FUC:
            is >> o.k >> pk;
            o.peek = pk != 0;
            break;
        case ERAR:
        case ERAI:
            is >> n;
            o.items.resize(n);
            for (auto& it : o.items)
                is >> it.k;
            break;
        case FNDR:
        case FNDF:
        case FNDI:
        case FNDFI:
            is >> pk >> n;
            o.peek = pk != 0;
            o.items.resize(n);
            for (auto& it : o.items)
                is >> it.k;
            break;
        case SETTTL:
        case ADV:
        case SET:
            is >> o.ttl;
            break;
        default:
            break;
    }
    return !is.fail();
}

inline std::string res_to_text(const Op& o, const Res& r)
{
    std::ostringstream os;
    if (op_is_find(o.kind))
    {
        os << '[';
        for (size_t i = 0; i < r.vals.size(); ++i)
        {
            if (i)
                os << ' ';
            if (i < r.keys.size())
                os << r.keys[i] << ':';
            if (r.vals[i])
                os << *r.vals[i];
            else
                os << '-';
        }
        os << ']';
        if (r.cnt)
            os << " cnt=" << *r.cnt;
    }
    else if (o.kind == INS || o.kind == ERA || o.kind == EMPTY)
        os << (r.b ? "true" : "false");
    else if (o.kind == ADV || o.kind == SET || o.kind == CLEAR || o.kind == SETTTL)
        os << "-";
    else
        os << r.n;
    return os.str();
}

inline std::string json_escape(const std::string& s)
{
    std::string o;
    for (char c : s)
    {
        if (c == '"' || c == '\\')
        {
            o += '\\';
            o += c;
        }
        else if (c == '\n')
            o += "\\n";
        else if ((unsigned char)c < 0x20)
            o += ' ';
        else
            o += c;
    }
    return o;
}

} // namespace vh
