// Adapter translation unit for ut_map (the only kind of TU, with the other adapters, that includes the library).
#include "adapter.hpp"
namespace vh
{
ICache* make_cache_ut_map(const Cfg& cfg) { return make_cache_kind<UTMAP>(cfg); }
} // namespace vh
