// Adapter translation unit for lfu (the only kind of TU, with the other adapters, that includes the library).
#include "adapter.hpp"
namespace vh
{
ICache* make_cache_lfu(const Cfg& cfg) { return make_cache_kind<LFU>(cfg); }
} // namespace vh
