// Adapter translation unit for tlru (the only kind of TU, with the other adapters, that includes the library).
#include "adapter.hpp"
namespace vh
{
ICache* make_cache_tlru(const Cfg& cfg) { return make_cache_kind<TLRU>(cfg); }
} // namespace vh
