// Adapter translation unit for lru (the only kind of TU, with the other adapters, that includes the library).
#include "adapter.hpp"
namespace vh
{
ICache* make_cache_lru(const Cfg& cfg) { return make_cache_kind<LRU>(cfg); }
} // namespace vh
