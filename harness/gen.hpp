// State-aware hostile workload generators.  The generator sees the monitor's current
// specification state and uses it to aim at the fragile places (DESIGN.md 3.5).
#pragma once
#include "model.hpp"

#include <string>
#include <vector>

namespace vh
{
enum Profile : int
{
    P_TINY = 0,
    P_CHURN,
    P_RECYCLE,
    P_SHAPE,
    P_RANGES,
    P_TTLEDGE,
    P_AGING,
    P_NOOP,
    P_LOADFACTOR,
    P_CLEAR,
    P_SPREAD, // rr long runs for the statistical clause
    P_BULK,   // hundreds of keys, large range operations (batch expiry, big purges, rehash-sized batches)
    P_NPROFILES
};
static const char* const profile_names[P_NPROFILES] = {"tiny", "churn", "recycle", "shape", "ranges", "ttl-edge", "aging", "noop", "loadfactor", "clear", "spread", "bulk"};
inline int               profile_from_name(const std::string& s)
{
    for (int i = 0; i < P_NPROFILES; ++i)
        if (s == profile_names[i])
            return i;
    return -1;
}

struct CasePlan
{
    Cfg  cfg;
    int  profile{P_CHURN};
    int  nops{100};
    int  audit_mode{2}; // 0: only at the end, 1: sparse (~1 in 4), 2: after every op
    bool audit_skip_u{true};
    bool evict_free{false}; // capacity >= universe
};

class Generator
{
public:
    Rng      rng;
    CasePlan plan;
    uint64_t vid_base;
    uint64_t vid_ctr{0};
    bool     noinsr{false};
    // recycle-profile phase machine
    int phase{0}, phase_left{0};
    // ttl-edge: pending boundary probe
    int     probe_key{-1};
    int     probe_stage{0};
    int64_t probe_deadline{0};

    Generator(uint64_t seed) : rng(seed), vid_base((seed & 0xFFFFFFFFULL) << 24) {}

    uint64_t fresh_vid() { return vid_base | (++vid_ctr); }

    static const std::vector<int64_t>& ttl_choices()
    {
        static const std::vector<int64_t> v = {0, 1, 2, 5, 10, 100, 1000000};
        return v;
    }

    static const std::vector<float>& lf_choices()
    {
        static const std::vector<float> v = {0.01f, 0.25f, 0.7f, 3.7f, 16.0f, 1000.0f};
        return v;
    }

    CasePlan make_plan(int kind, int profile, int typeset_mask, int ts_mode, int nops_lo, int nops_hi)
    {
        CasePlan p;
        p.profile   = profile;
        Cfg& c      = p.cfg;
        c.kind      = kind;
        // typeset: choose among those allowed by the mask
        std::vector<int> tss;
        for (int i = 0; i < 3; ++i)
            if (typeset_mask & (1 << i))
                tss.push_back(i);
        c.typeset = tss.empty() ? 0 : rng.pick(tss);
        c.ts      = ts_mode == 2 ? rng.chance(1, 2) : (ts_mode == 1);
        c.mlf     = 1.0f;
        c.rseed   = rng.next();
        switch (profile)
        {
            case P_TINY:
                c.cap      = rng.range(1, 2);
                c.universe = rng.range(3, 4);
                break;
            case P_CHURN:
            case P_RECYCLE:
            case P_NOOP:
            case P_CLEAR:
                c.cap      = rng.range(3, 8);
                c.universe = rng.range(c.cap + 1, 2 * c.cap);
                break;
            case P_SHAPE:
                c.cap      = rng.range(3, 6);
                c.universe = rng.range(c.cap + 1, c.cap + 3);
                break;
            case P_RANGES:
                c.cap      = rng.range(2, 6);
                c.universe = rng.range(c.cap + 1, 2 * c.cap + 1);
                break;
            case P_TTLEDGE:
                c.cap      = rng.range(1, 4);
                c.universe = rng.range(c.cap + 1, c.cap + 3);
                break;
            case P_AGING:
                c.cap      = rng.range(2, 5);
                c.universe = rng.range(c.cap + 1, c.cap + 3);
                break;
            case P_LOADFACTOR: {
                static const std::vector<float> lfs = {0.01f, 0.25f, 0.7f, 1.0f, 3.7f, 16.0f, 1000.0f};
                c.mlf                               = rng.pick(lfs);
                c.cap                               = rng.range(1, 64);
                c.universe                          = rng.range(c.cap + 1, std::min(200, 3 * c.cap + 4));
                break;
            }
            case P_BULK:
                c.cap      = rng.range(16, 64);
                c.universe = rng.range(150, 400);
                break;
            case P_SPREAD: {
                static const std::vector<int> caps = {2, 3, 5, 8};
                c.cap                              = rng.pick(caps);
                c.universe                         = c.cap * 2 + 2;
                break;
            }
            default:
                c.cap      = 4;
                c.universe = 6;
        }
        if (rng.chance(1, 10) && profile != P_SPREAD && profile != P_LOADFACTOR && profile != P_BULK)
        {
            // eviction-free variant: every miss is attributable to erase / expiry alone
            p.evict_free = true;
            c.cap        = c.universe;
        }
        if (!kind_has_capacity(kind))
        {
            c.cap = 0;
            if (profile == P_LOADFACTOR)
                c.universe = rng.range(20, 100);
        }
        if (profile == P_BULK)
            p.evict_free = false;
        // max_load_factor is behaviourally invisible (no property mentions it beyond "every finite positive value"), so one case
        // in four of every profile runs with an unusual one.  Derived from the bits of rseed already drawn: the operation
        // streams of all other cases stay what they were.
        if (profile != P_LOADFACTOR && ((c.rseed >> 40) & 3) == 0)
            c.mlf = lf_choices()[(size_t)((c.rseed >> 44) % lf_choices().size())];
        // time parameters
        if (profile == P_TTLEDGE || rng.chance(1, 2))
            c.ttl_ms = rng.pick(ttl_choices());
        else
            c.ttl_ms = rng.pick(std::vector<int64_t>{5, 10, 100});
        static const std::vector<int64_t> ticks = {1, 5, 10};
        c.tick_ms                               = rng.pick(ticks);
        c.ratio_q                               = rng.range(0, 4);
        p.nops                                  = rng.range(nops_lo, nops_hi);
        int am                                  = (int)rng.below(100);
        p.audit_mode                            = am < 65 ? 2 : (am < 88 ? 1 : 0);
        p.audit_skip_u                          = rng.chance(7, 10);
        if (profile == P_SPREAD)
            p.audit_mode = 2; // every eviction's victim must be resolved for the spread statistics
        if (profile == P_BULK)
        {
            p.audit_mode = rng.chance(1, 2) ? 1 : 0; // an audit costs one lookup per key of the universe
            p.nops       = rng.range(12, 40);
        }
        plan                                    = p;
        phase                                   = 0;
        phase_left                              = 0;
        return p;
    }

    // ---- key pickers ---------------------------------------------------------------------------
    int pick_key_class(const State& s, int want /*0 any,1 live,2 absent,3 expired-unreaped*/)
    {
        std::vector<int> c;
        for (size_t i = 0; i < s.k.size(); ++i)
        {
            St st = s.k[i].st;
            if (want == 0 || (want == 1 && st == LIVE) || (want == 2 && st == ABSENT) || (want == 3 && st == EXPU))
                c.push_back((int)i);
        }
        if (c.empty())
            return (int)rng.below(s.k.size());
        return rng.pick(c);
    }
    int pick_key(const State& s)
    {
        int w = (int)rng.below(10);
        if (w < 4)
            return pick_key_class(s, 1);
        if (w < 7)
            return pick_key_class(s, 2);
        if (w < 8)
            return pick_key_class(s, 3);
        return pick_key_class(s, 0);
    }
    // the resident the policy would evict next / an old / a middle / the newest one
    int pick_positional(const State& s, int kind)
    {
        std::vector<std::pair<uint64_t, int>> v;
        for (size_t i = 0; i < s.k.size(); ++i)
            if (s.k[i].st == LIVE)
                v.emplace_back(kind == FIFO ? s.k[i].ins_seq : s.k[i].use_seq, (int)i);
        if (v.empty())
            return (int)rng.below(s.k.size());
        std::sort(v.begin(), v.end());
        int w = (int)rng.below(3);
        if (w == 0)
            return v.front().second;
        if (w == 1)
            return v[v.size() / 2].second;
        return v.back().second;
    }
    int pick_allow()
    {
        int w = (int)rng.below(4);
        return w < 2 ? A_UPSERT : (w == 2 ? A_INSERT : A_UPDATE);
    }
    int64_t pick_ttl()
    {
        if (plan.profile == P_TTLEDGE || rng.chance(1, 3))
            return rng.pick(ttl_choices());
        return rng.pick(std::vector<int64_t>{1, 2, 5, 10, 100});
    }

    void fill_items(const State& s, Op& op, int nmax, bool values)
    {
        if (plan.profile == P_BULK && rng.chance(2, 3))
        {
            // a large batch of (mostly) consecutive distinct keys
            int u     = (int)s.k.size();
            int n     = rng.range(u / 4, u);
            int start = (int)rng.below((uint64_t)u);
            int64_t ttl = pick_ttl();
            for (int i = 0; i < n; ++i)
            {
                Item it;
                it.k = (start + i) % u;
                if (values)
                {
                    it.v   = fresh_vid();
                    it.ttl = rng.chance(1, 8) ? pick_ttl() : ttl;
                }
                op.items.push_back(it);
            }
            op.v = rng.below(4);
            return;
        }
        int  n    = (int)rng.below((uint64_t)nmax + 1);
        bool dups = rng.chance(1, 3);
        for (int i = 0; i < n; ++i)
        {
            Item it;
            if (dups && i > 0 && rng.chance(1, 3))
                it.k = op.items[rng.below(op.items.size())].k;
            else
                it.k = pick_key(s);
            if (values)
            {
                it.v   = fresh_vid();
                it.ttl = pick_ttl();
            }
            op.items.push_back(it);
        }
        op.v = rng.below(4); // container form selector
    }

    // ---- clock moves ---------------------------------------------------------------------------
    // target instants aimed at boundaries: some live deadline -1/0/+1 ns; lfuda touch+tick -1/0/+1.
    bool aimed_clock(const Model& m, const State& s, int64_t now, Op& op)
    {
        std::vector<int64_t> targets;
        if (m.ttl())
        {
            for (auto& e : s.k)
                if (e.st == LIVE)
                    for (int64_t d = -1; d <= 1; ++d)
                        targets.push_back(e.deadline + d);
            // strictly between two deadlines
            std::vector<int64_t> dls;
            for (auto& e : s.k)
                if (e.st == LIVE)
                    dls.push_back(e.deadline);
            std::sort(dls.begin(), dls.end());
            for (size_t i = 0; i + 1 < dls.size(); ++i)
                if (dls[i + 1] - dls[i] >= 2)
                    targets.push_back(dls[i] + (dls[i + 1] - dls[i]) / 2);
        }
        if (m.cfg.kind == LFUDA)
        {
            int64_t tick = m.cfg.tick_ms * 1000000LL;
            for (auto& e : s.k)
                if (e.st == LIVE)
                    for (int64_t d = -1; d <= 1; ++d)
                        targets.push_back(e.touch + tick + d);
        }
        std::vector<int64_t> ok;
        for (auto t : targets)
            if (t > now && t < now + 4000000000000LL)
                ok.push_back(t);
        if (ok.empty())
            return false;
        op.kind = SET;
        op.ttl  = rng.pick(ok);
        return true;
    }
    void random_clock(const Model& m, int64_t, Op& op)
    {
        op.kind = ADV;
        int w   = (int)rng.below(6);
        int64_t unit = 1000000LL; // 1 ms
        switch (w)
        {
            case 0:
                op.ttl = 1;
                break;
            case 1:
                op.ttl = (int64_t)rng.below(1000000) + 1;
                break;
            case 2:
                op.ttl = unit * (int64_t)(1 + rng.below(3));
                break;
            case 3:
                op.ttl = unit * (int64_t)(1 + rng.below(12));
                break;
            case 4:
                op.ttl = (m.cfg.kind == LFUDA ? m.cfg.tick_ms : std::max<int64_t>(1, m.cfg.ttl_ms > 1000 ? 100 : m.cfg.ttl_ms)) * unit;
                break;
            default:
                op.ttl = unit * (int64_t)(1 + rng.below(120));
        }
    }

    // ---- the main chooser ----------------------------------------------------------------------
    Op next(const Model& m, const State& s, int64_t now)
    {
        const int kind = m.cfg.kind;
        Op        op;
        // weights
        int wINS = 30, wINSR = 6, wERA = 10, wERAR = 3, wFND = 20, wFNDR = 5, wFNDF = 3, wFUC = 0, wCLEAN = 0, wAGE = 0, wCLEAR = 0, wSETTTL = 0,
            wCLK = 0;
        if (kind_has_counts(kind))
            wFUC = 8;
        if (kind_is_ttl(kind))
        {
            wCLEAN = 4;
            wCLK   = 14;
        }
        if (kind == LFUDA)
        {
            wAGE = 6;
            wCLK = 14;
        }
        if (kind_has_clear(kind))
            wCLEAR = 1;
        if (kind == UTLRU)
            wSETTTL = 4;
        switch (plan.profile)
        {
            case P_CHURN:
                wINS = 60;
                break;
            case P_SHAPE:
                wINS  = 22;
                wFND  = 40;
                wFNDR = 12;
                wFUC *= 2;
                break;
            case P_RANGES:
                wINS  = 10;
                wINSR = 25;
                wERAR = 10;
                wFNDR = 15;
                wFNDF = 10;
                wFND  = 8;
                break;
            case P_TTLEDGE:
                wCLK *= 3;
                wCLEAN *= 2;
                wSETTTL *= 3;
                break;
            case P_AGING:
                wCLK *= 3;
                wAGE *= 3;
                wFND = 30;
                break;
            case P_CLEAR:
                wCLEAR *= 6;
                break;
            case P_BULK:
                wINS  = 6;
                wINSR = 30;
                wERAR = 8;
                wFNDR = 14;
                wFNDF = 8;
                wFND  = 14;
                wCLK *= 2;
                break;
            case P_SPREAD:
                wINS = 80, wINSR = 0, wERA = 0, wERAR = 0, wFND = 10, wFNDR = 2, wFNDF = 0;
                break;
            case P_RECYCLE:
                // phase machine: FILL -> ERASE -> FILL ...
                if (phase_left <= 0)
                {
                    phase      = (phase + 1) % 2;
                    phase_left = phase == 0 ? rng.range(m.cfg.cap, 3 * m.cfg.cap + 2) : rng.range(1, std::max(1, m.cfg.cap));
                }
                --phase_left;
                if (phase == 0)
                {
                    wINS = 70;
                    wERA = 2;
                }
                else
                {
                    wINS = 5;
                    wERA = 60;
                    wERAR = 10;
                }
                break;
            default:
                break;
        }
        // no-op bursts
        if (plan.profile == P_NOOP && rng.chance(1, 2))
            return noop_call(m, s);

        if (noinsr)
        {
            wINS += wINSR;
            wINSR = 0;
        }
        int total = wINS + wINSR + wERA + wERAR + wFND + wFNDR + wFNDF + wFUC + wCLEAN + wAGE + wCLEAR + wSETTTL + wCLK;
        int x     = (int)rng.below((uint64_t)total);
        auto take = [&](int w) {
            if (x < w)
                return true;
            x -= w;
            return false;
        };
        if (take(wINS))
        {
            op.kind  = INS;
            op.allow = pick_allow();
            // aim: mostly new keys when churning, the eviction candidate's neighbours when shaping
            int w = (int)rng.below(10);
            if (plan.profile == P_CHURN || plan.profile == P_SPREAD || plan.profile == P_RECYCLE)
                op.k = w < 7 ? pick_key_class(s, 2) : pick_key(s);
            else if (w < 2)
                op.k = pick_positional(s, kind);
            else
                op.k = pick_key(s);
            if (plan.profile == P_SPREAD)
                op.allow = A_UPSERT;
            op.v   = fresh_vid();
            op.ttl = pick_ttl();
            if (plan.profile == P_SPREAD && !noinsr)
            {
                // the same insert issued through the range form (one element, so the victim stays identifiable)
                Item it;
                it.k   = op.k;
                it.v   = op.v;
                it.ttl = op.ttl;
                op.items.push_back(it);
                op.kind = INSR;
                op.v    = rng.below(4);
            }
            return op;
        }
        if (take(wINSR))
        {
            op.kind  = (kind == FIFO && rng.chance(1, 2)) ? INSI : INSR;
            op.allow = pick_allow();
            int nmax = plan.profile == P_RANGES ? std::max(3, (kind_has_capacity(kind) ? m.cfg.cap : 4) + 3) : 4;
            if ((kind == RR || kind == LFU || kind == LFUDA) && nmax > 6)
                nmax = 6;
            fill_items(s, op, nmax, true);
            return op;
        }
        if (take(wERA))
        {
            op.kind = ERA;
            op.k    = rng.chance(1, 2) ? pick_positional(s, kind) : pick_key(s);
            return op;
        }
        if (take(wERAR))
        {
            op.kind = (kind == FIFO && rng.chance(1, 2)) ? ERAI : ERAR;
            fill_items(s, op, 4, false);
            return op;
        }
        if (take(wFND))
        {
            op.kind = FND;
            op.k    = rng.chance(1, 4) ? pick_positional(s, kind) : pick_key(s);
            op.peek = kind_has_peek(kind) && rng.chance(3, 10);
            return op;
        }
        if (take(wFNDR))
        {
            op.kind = (kind == FIFO && rng.chance(1, 2)) ? FNDI : FNDR;
            op.peek = kind_has_peek(kind) && rng.chance(3, 10);
            fill_items(s, op, 5, false);
            return op;
        }
        if (take(wFNDF))
        {
            op.kind = (kind == FIFO && rng.chance(1, 2)) ? FNDFI : FNDF;
            op.peek = kind_has_peek(kind) && rng.chance(3, 10);
            fill_items(s, op, 5, false);
            return op;
        }
        if (take(wFUC))
        {
            op.kind = FUC;
            op.k    = pick_key(s);
            op.peek = rng.chance(3, 10);
            return op;
        }
        if (take(wCLEAN))
        {
            op.kind = CLEAN;
            return op;
        }
        if (take(wAGE))
        {
            op.kind = AGE;
            return op;
        }
        if (take(wCLEAR))
        {
            op.kind = CLEAR;
            return op;
        }
        if (take(wSETTTL))
        {
            op.kind = SETTTL;
            op.ttl  = rng.pick(ttl_choices());
            if (op.ttl == 1000000 && rng.chance(1, 2))
                op.ttl = rng.range(1, 50);
            return op;
        }
        // clock
        if (rng.chance(3, 5) && aimed_clock(m, s, now, op))
            return op;
        random_clock(m, now, op);
        return op;
    }

    // a call the specification says has no effect: a peek, a miss, a rejected insert, an absent-key erase
    Op noop_call(const Model& m, const State& s)
    {
        const int kind = m.cfg.kind;
        Op        op;
        int       w = (int)rng.below(4);
        if (w == 0 && kind_has_peek(kind))
        {
            bool range = rng.chance(1, 4);
            op.peek    = true;
            if (range)
            {
                op.kind = rng.chance(1, 2) ? FNDR : FNDF;
                int n   = rng.range(1, 4);
                for (int i = 0; i < n; ++i)
                {
                    Item it;
                    it.k = pick_key_class(s, rng.chance(3, 4) ? 1 : 2);
                    op.items.push_back(it);
                }
            }
            else
            {
                op.kind = (kind_has_counts(kind) && rng.chance(1, 3)) ? FUC : FND;
                op.k    = pick_key_class(s, 1);
            }
            return op;
        }
        if (w == 1)
        {
            // lookup that misses
            op.kind = FND;
            op.k    = pick_key_class(s, 2);
            op.peek = false;
            if (s.k[(size_t)op.k].st != ABSENT)
                op.peek = kind_has_peek(kind);
            return op;
        }
        if (w == 2)
        {
            // rejected insert: allow::insert on a live key or allow::update on an absent key
            op.kind = INS;
            op.v    = fresh_vid();
            op.ttl  = pick_ttl();
            if (rng.chance(1, 2))
            {
                op.k     = pick_key_class(s, 1);
                op.allow = s.k[(size_t)op.k].st == LIVE ? A_INSERT : A_UPDATE;
            }
            else
            {
                op.k     = pick_key_class(s, 2);
                op.allow = s.k[(size_t)op.k].st == ABSENT ? A_UPDATE : A_INSERT;
            }
            if (s.k[(size_t)op.k].st == EXPU)
            {
                // neither form is a guaranteed no-op on an expired-unreaped key: fall back to a miss on an absent key
                op      = Op{};
                op.kind = FND;
                op.k    = pick_key_class(s, 2);
                op.peek = kind_has_peek(kind) && s.k[(size_t)op.k].st != ABSENT;
            }
            return op;
        }
        // absent-key erase
        op.kind = ERA;
        op.k    = pick_key_class(s, 2);
        if (s.k[(size_t)op.k].st != ABSENT)
        {
            op.kind = FND;
            op.peek = kind_has_peek(kind);
        }
        return op;
    }
};

} // namespace vh
