// Link-time replacement of std::chrono::steady_clock::now(): a virtual clock owned by the harness.
// The definition in the executable interposes the one in libstdc++ (checked at start-up by
// vclock_selftest()).  Relaxed atomics only: no happens-before edge is added between threads.
#include <atomic>
#include <chrono>
#include <cstdint>
#include <cstdio>
#include <cstdlib>

namespace vclock
{
std::atomic<int64_t> g_now_ns{1000000000LL};
int64_t              now() { return g_now_ns.load(std::memory_order_relaxed); }
void                 set(int64_t t) { g_now_ns.store(t, std::memory_order_relaxed); }
void                 advance(int64_t dt) { g_now_ns.fetch_add(dt, std::memory_order_relaxed); }
void                 selftest()
{
    int64_t before = now();
    set(before + 12345);
    auto t = std::chrono::steady_clock::now().time_since_epoch();
    int64_t seen = std::chrono::duration_cast<std::chrono::nanoseconds>(t).count();
    set(before);
    if (seen != before + 12345)
    {
        std::fprintf(stderr, "HARNESS-FAILURE: steady_clock::now() is not interposed (saw %lld)\n", (long long)seen);
        std::exit(2);
    }
}
} // namespace vclock

namespace std
{
namespace chrono
{
inline namespace _V2
{
steady_clock::time_point steady_clock::now() noexcept
{
    return time_point(duration(vclock::g_now_ns.load(std::memory_order_relaxed)));
}
} // namespace _V2
} // namespace chrono
} // namespace std
