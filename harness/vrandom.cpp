// Link-time replacement of the out-of-line members of std::random_device so that rr_cache's
// victim choice is a pure function of the seed injected by the harness.
#include <atomic>
#include <cstdint>
#include <random>
#include <string>

namespace vrandom
{
std::atomic<uint64_t> g_seed{0x9E3779B97F4A7C15ULL};
std::atomic<uint64_t> g_draws{0};
void                  seed(uint64_t s) { g_seed.store(s, std::memory_order_relaxed); }
uint64_t              draws() { return g_draws.load(std::memory_order_relaxed); }
static uint32_t       next()
{
    // Every random_device constructed after seed(s) yields the same first value: a function of s only.
    g_draws.fetch_add(1, std::memory_order_relaxed);
    uint64_t z = g_seed.load(std::memory_order_relaxed) + 0x9E3779B97F4A7C15ULL;
    z          = (z ^ (z >> 30)) * 0xBF58476D1CE4E5B9ULL;
    z          = (z ^ (z >> 27)) * 0x94D049BB133111EBULL;
    z          = z ^ (z >> 31);
    return (uint32_t)(z ^ (z >> 32));
}
} // namespace vrandom

namespace std
{
void random_device::_M_init(const std::string&) { _M_file = nullptr; _M_func = nullptr; _M_fd = -1; }
void random_device::_M_init_pretr1(const std::string&) { _M_file = nullptr; _M_func = nullptr; _M_fd = -1; }
void random_device::_M_fini() {}
random_device::result_type random_device::_M_getval() { return vrandom::next(); }
random_device::result_type random_device::_M_getval_pretr1() { return vrandom::next(); }
double                     random_device::_M_getentropy() const noexcept { return 0.0; }
} // namespace std
