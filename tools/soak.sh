#!/bin/bash
# Soak: runs every check of the given tier for each VERIF_SEED given, from fresh processes, against /repo.
# usage: tools/soak.sh <tier> <seed> [<seed> ...]     (evidence goes to a scratch directory, not to /verif/evidence)
tier=$1; shift
out=/tmp/soak-ev-$$; mkdir -p $out
for seed in "$@"; do
  for p in ${PROPS:-C01 C02 C03 C04 C05 C06 C07 C08 C09 C10 C11 C12 C13 C14 C15 C16 C17 C18 C19 C20}; do
    t0=$(date +%s)
    VERIF_SEED=$seed VERIF_EVIDENCE_DIR=$out VERIF_REPLAY_DIR=$out/replays python3 /verif/check.py --property $p --tier $tier > $out/$p-$seed.log 2>&1
    rc=$?
    t1=$(date +%s)
    echo "seed=$seed $p rc=$rc $((t1-t0))s $(grep -c '^VIOLATION' $out/$p-$seed.log) violations; $(grep -E '^(RESULT|HARNESS)' $out/$p-$seed.log | head -1 | cut -c1-150)"
    if [ $rc -ne 0 ]; then grep -E "^(VIOLATION|  #|HARNESS)" $out/$p-$seed.log | head -6; fi
  done
done
