#!/usr/bin/env python3
"""Imports a sub-agent's seeded change from /tmp/seed-<Cxx>/seed/<A|B> into /verif/seeded/<Cxx>-<A|B>/ after
confirming, on scratch copies of /repo, that (1) the patch applies, (2) the repository's 167 tests still pass
with it, (3) the demonstration passes without the patch and fails with it.  Writes meta.json.

  tools/import_seed.py C01 A [--needs "text"]
"""
import json
import os
import re
import shutil
import subprocess
import sys

VERIF = os.path.dirname(os.path.dirname(os.path.abspath(__file__)))
sys.path.insert(0, os.path.join(VERIF, "tools"))
import run_mutants  # noqa: E402

DEMO_FLAGS = {
    "C07": "-std=c++17 -O0 -g -fsanitize=thread",
    "C08": "-std=c++17 -O1 -g -fsanitize=address,undefined -fno-sanitize-recover=all -D_GLIBCXX_DEBUG",
}


def sh(cmd, **kw):
    return subprocess.run(cmd, shell=True, capture_output=True, text=True, **kw)


def main():
    prop, which = sys.argv[1], sys.argv[2]
    rnd = sys.argv[3] if len(sys.argv) > 3 else ""  # "" = first round (/tmp/seed-Cxx), "2" = second round (/tmp/seed2-Cxx) ...
    src = "/tmp/seed%s-%s/seed/%s" % (rnd, prop, which)
    name = "%s-%s%s" % (prop, which, rnd)
    dst = os.path.join(VERIF, "seeded", name)
    if not os.path.exists(os.path.join(src, "patch.diff")):
        print("no patch at", src)
        return 2
    run_mutants.ensure_catch()
    scratch = "/tmp/seedchk-%s-%d" % (name, os.getpid())
    shutil.rmtree(scratch, ignore_errors=True)
    os.makedirs(scratch)
    meta = {"property": prop, "id": name, "origin": "independent sub-agent given only the property text and a scratch worktree", "ran": {}}
    try:
        for d in ("inc", "src", "test"):
            shutil.copytree(os.path.join("/repo", d), os.path.join(scratch, d))
        r = sh("patch -p1 -s -d %s -i %s/patch.diff" % (scratch, src))
        meta["ran"]["patch_applies"] = r.returncode == 0
        if r.returncode != 0:
            print("PATCH FAILED", r.stdout, r.stderr)
            return 1
        meta["ran"]["repository_tests_with_patch"] = run_mutants.run_repo_tests(scratch)
        flags = DEMO_FLAGS.get(prop, "-std=c++17 -O1")
        out = {}
        for label, inc in (("without_patch", "/repo/inc"), ("with_patch", scratch + "/inc")):
            exe = os.path.join(scratch, "demo_" + label)
            r = sh("g++ %s -I%s %s/demo.cpp -o %s -pthread" % (flags, inc, src, exe))
            if r.returncode != 0:
                out[label] = "demo does not compile: " + r.stderr[-300:]
                continue
            try:
                r = sh(exe, timeout=600)
                tail = (r.stdout + r.stderr).strip().splitlines()[-1:] or [""]
                out[label] = "exit %d: %s" % (r.returncode, tail[0][:160])
            except subprocess.TimeoutExpired:
                out[label] = "timeout"
        meta["ran"]["demo"] = out
        ok = meta["ran"]["repository_tests_with_patch"].startswith("All tests passed") and out.get("without_patch", "").startswith("exit 0") and not out.get("with_patch", "exit 0").startswith("exit 0")
        meta["confirmed"] = ok
        readme = open(os.path.join(src, "README.md")).read() if os.path.exists(os.path.join(src, "README.md")) else ""
        meta["needs_to_manifest"] = " ".join(readme.split())[:1500]
        os.makedirs(dst, exist_ok=True)
        for f in ("patch.diff", "demo.cpp", "README.md"):
            if os.path.exists(os.path.join(src, f)):
                shutil.copy(os.path.join(src, f), dst)
        with open(os.path.join(dst, "meta.json"), "w") as f:
            json.dump(meta, f, indent=1)
        print(name, "confirmed" if ok else "NOT CONFIRMED", json.dumps(meta["ran"]))
        return 0 if ok else 1
    finally:
        shutil.rmtree(scratch, ignore_errors=True)


if __name__ == "__main__":
    sys.exit(main())
