#!/usr/bin/env python3
"""Runs checks against a scratch copy of /repo with one patch applied (sensitivity self-test).

  tools/mutant.py <patch.diff> <prop>[,<prop>...] [--tier quick|thorough] [--seed N] [--also-tests]

The copy lives under /tmp, is pointed at with VERIF_REPO, and is removed afterwards together with the
build output produced for it.  Prints, per property, the exit status and the VIOLATION/KNOWN lines.
"""
import argparse
import hashlib
import os
import shutil
import subprocess
import sys

VERIF = os.path.dirname(os.path.dirname(os.path.abspath(__file__)))


def main():
    ap = argparse.ArgumentParser()
    ap.add_argument("patch")
    ap.add_argument("props")
    ap.add_argument("--tier", default="quick")
    ap.add_argument("--seed", default="1")
    ap.add_argument("--also-tests", action="store_true", help="also build the repository's own test suite on the copy and run it")
    ap.add_argument("--reverse", action="store_true", help="apply the patch in reverse (e.g. to revert a fix commit's diff)")
    a = ap.parse_args()
    tag = hashlib.sha1(open(a.patch, "rb").read()).hexdigest()[:10]
    scratch = "/tmp/mutant-%s-%d" % (tag, os.getpid())
    shutil.rmtree(scratch, ignore_errors=True)
    os.makedirs(scratch)
    try:
        for d in ("inc", "src", "test", "examples", "CMakeLists.txt"):
            src = os.path.join("/repo", d)
            if os.path.isdir(src):
                shutil.copytree(src, os.path.join(scratch, d))
            elif os.path.exists(src):
                shutil.copy(src, scratch)
        cmd = ["patch", "-p1", "-s", "-d", scratch, "-i", os.path.abspath(a.patch)]
        if a.reverse:
            cmd.insert(1, "-R")
        r = subprocess.run(cmd, capture_output=True, text=True)
        if r.returncode != 0:
            print("PATCH FAILED:", r.stdout, r.stderr)
            return 2
        if a.also_tests:
            b = os.path.join(scratch, "_build")
            r = subprocess.run("cmake -G Ninja -S %s -B %s -DCMAKE_CXX_FLAGS=-Wno-error >/dev/null 2>&1 && cmake --build %s 2>&1 | tail -3 && %s/test/libcappuccino_tests | tail -2" % (scratch, b, b, b),
                               shell=True, capture_output=True, text=True)
            print("repository tests on the mutant:", (r.stdout + r.stderr).strip().splitlines()[-1:] or "?")
            shutil.rmtree(b, ignore_errors=True)
        env = dict(os.environ)
        env["VERIF_REPO"] = scratch
        env["VERIF_EVIDENCE_DIR"] = os.path.join(scratch, "_evidence")
        env["VERIF_REPLAY_DIR"] = os.path.join(scratch, "_replays")
        env["VERIF_SEED"] = a.seed
        rc_all = {}
        for p in a.props.split(","):
            r = subprocess.run([sys.executable, os.path.join(VERIF, "check.py"), "--property", p, "--tier", a.tier], capture_output=True, text=True, env=env, cwd=VERIF)
            lines = [ln for ln in r.stdout.splitlines() if ln.startswith(("VIOLATION", "KNOWN", "RESULT", "HARNESS", "  #", "UNATTR", "INCONCL"))]
            print("== %s exit=%d" % (p, r.returncode))
            for ln in lines[:8]:
                print("   " + ln[:260])
            if r.returncode == 2:
                print(r.stdout[-1500:], r.stderr[-1500:])
            rc_all[p] = r.returncode
        return 0
    finally:
        shutil.rmtree(scratch, ignore_errors=True)
        # drop the build output made for the scratch tree (keyed by content hash: prune keeps the two newest)
        subprocess.run([sys.executable, "-c", "import sys; sys.path.insert(0, %r); import check; check.prune_builds(check.tree_hash())" % VERIF], cwd=VERIF)


if __name__ == "__main__":
    sys.exit(main())
