#!/usr/bin/env python3
"""Generates /verif/mutants/*.diff from a table of (file, old text, new text) edits against /repo's HEAD
working tree.  Each mutant is a small change aimed at one property ("built to catch" lists of DESIGN.md)."""
import difflib
import os
import sys

REPO = "/repo"
OUT = os.path.join(os.path.dirname(os.path.dirname(os.path.abspath(__file__))), "mutants")

M = []


def mut(name, props, fname, old, new, count=1, nth=None):
    M.append((name, props, fname, old, new, count, nth))


H = "inc/cappuccino/"
# ---- LRU order ----------------------------------------------------------------------------------
mut("m02-lru-update-no-recency", "C10", H + "lru_cache.hpp",
    "        e.m_value  = std::move(value);\n\n        do_access(e);\n", "        e.m_value  = std::move(value);\n")
mut("m03-lru-find_range-no-recency", "C10,C18", H + "lru_cache.hpp",
    "                output.emplace_back(key, do_find(key, peek));", "                output.emplace_back(key, do_find(key, cappuccino::peek::yes));")
mut("m31-lru-rejected-insert-refreshes-recency", "C19,C10", H + "lru_cache.hpp",
    "                do_update(keyed_position, std::move(value));\n                return true;\n            }\n        }\n        else",
    "                do_update(keyed_position, std::move(value));\n                return true;\n            }\n            do_access(m_elements[keyed_position->second]);\n        }\n        else")
mut("m27-lru-erase_range-counts-attempts", "C18", H + "lru_cache.hpp",
    "            if (keyed_position != m_keyed_elements.end())\n            {\n                ++deleted_elements;\n                do_erase(keyed_position->second);\n            }",
    "            ++deleted_elements;\n            if (keyed_position != m_keyed_elements.end())\n            {\n                do_erase(keyed_position->second);\n            }")
mut("m28-lru-insert_range-counts-all", "C09,C18", H + "lru_cache.hpp",
    "                if (do_insert_update(key, std::move(value), a))\n                {\n                    ++inserted;\n                }",
    "                do_insert_update(key, std::move(value), a);\n                ++inserted;")
mut("m30-lru-prune-off-by-one", "C08,C02", H + "lru_cache.hpp",
    "        if (m_used_size >= m_elements.size())\n        {\n            do_prune();", "        if (m_used_size > m_elements.size())\n        {\n            do_prune();")
mut("m37-lru-size-unlocked", "C07", H + "lru_cache.hpp",
    "    auto size() const -> size_t\n    {\n        std::lock_guard guard{m_lock};\n        return m_used_size;", "    auto size() const -> size_t\n    {\n        return m_used_size;")
mut("m41-lru-find-fastpath-unlocked", "C07", H + "lru_cache.hpp",
    "    auto find(const key_type& key, peek peek = peek::no) -> std::optional<value_type>\n    {\n        std::lock_guard guard{m_lock};",
    "    auto find(const key_type& key, peek peek = peek::no) -> std::optional<value_type>\n    {\n        if (m_used_size == 0)\n        {\n            return {};\n        }\n        std::lock_guard guard{m_lock};")
mut("m42-lru-erase-temporary-guard", "C07,C06", H + "lru_cache.hpp",
    "    auto erase(const key_type& key) -> bool\n    {\n        std::lock_guard guard{m_lock};", "    auto erase(const key_type& key) -> bool\n    {\n        std::lock_guard<decltype(m_lock)>{m_lock};")
# ---- TTL ----------------------------------------------------------------------------------------
mut("m04-tlru-find-boundary-inclusive", "C04", H + "tlru_cache.hpp", "            if (now < e.m_expire_time)", "            if (now <= e.m_expire_time)")
mut("m05-tlru-update-keeps-deadline", "C05,C04", H + "tlru_cache.hpp",
    "        element& e      = m_elements[element_idx];\n        e.m_expire_time = expire_time;\n        e.m_value       = std::move(value);\n\n        // Reinsert into TTL list with the new TTL.\n        m_ttl_list.erase(e.m_ttl_position);\n        e.m_ttl_position = m_ttl_list.emplace(expire_time, element_idx);",
    "        element& e      = m_elements[element_idx];\n        e.m_value       = std::move(value);\n        expire_time     = e.m_expire_time;\n\n        // Reinsert into TTL list with the new TTL.\n        m_ttl_list.erase(e.m_ttl_position);\n        e.m_ttl_position = m_ttl_list.emplace(expire_time, element_idx);")
mut("m06-tlru-insert-over-expired-boundary", "C09", H + "tlru_cache.hpp",
    "                if (now >= e.m_expire_time)\n                {\n                    do_update(keyed_position, std::move(value), expire_time);", "                if (now > e.m_expire_time)\n                {\n                    do_update(keyed_position, std::move(value), expire_time);")
mut("m23-tlru-clean-stops-after-one", "C17", H + "tlru_cache.hpp",
    "        while (m_used_size > 0 && now >= m_ttl_list.begin()->first)", "        if (m_used_size > 0 && now >= m_ttl_list.begin()->first)")
mut("m29-tlru-insert_range-first-ttl", "C05,C18,C04", H + "tlru_cache.hpp",
    "            for (auto& [ttl, key, value] : key_value_range)\n            {\n                auto expired_time = now + ttl;",
    "            std::optional<std::chrono::steady_clock::time_point> first;\n            for (auto& [ttl, key, value] : key_value_range)\n            {\n                if (!first.has_value())\n                {\n                    first = now + ttl;\n                }\n                auto expired_time = first.value();")
mut("m32-tlru-rejected-insert-refreshes-deadline", "C19,C09,C04", H + "tlru_cache.hpp",
    "                if (now >= e.m_expire_time)\n                {\n                    do_update(keyed_position, std::move(value), expire_time);\n                    return true;\n                }",
    "                if (now >= e.m_expire_time)\n                {\n                    do_update(keyed_position, std::move(value), expire_time);\n                    return true;\n                }\n                e.m_expire_time = expire_time;")
mut("m43-tlru-prune-prefers-lru-over-expired", "C16", H + "tlru_cache.hpp",
    "            if (now >= expire_time)\n            {\n                // If there is an expired item, prefer to remove that.", "            if (now > expire_time + std::chrono::milliseconds{1})\n            {\n                // If there is an expired item, prefer to remove that.")
mut("m07-utlru-prune-boundary", "C16", H + "utlru_cache.hpp",
    "            if (now >= e.m_expire_time)\n            {\n                do_erase(ttl_idx);\n            }\n            else\n            {\n                size_t lru_idx",
    "            if (now > e.m_expire_time)\n            {\n                do_erase(ttl_idx);\n            }\n            else\n            {\n                size_t lru_idx")
mut("m08-utlru-clean-boundary", "C17", H + "utlru_cache.hpp",
    "                if (now >= e.m_expire_time)\n                {\n                    ++deleted_elements;", "                if (now > e.m_expire_time)\n                {\n                    ++deleted_elements;")
mut("m24-utlru-clear-keeps-ttl-list", "C20,C08", H + "utlru_cache.hpp", "                m_ttl_list.clear();\n", "")
mut("m25-utlru-clear-keeps-size", "C20,C02", H + "utlru_cache.hpp", "                m_used_size = 0;\n", "")
mut("m38-utlru-update_ttl-unlocked", "C07", H + "utlru_cache.hpp",
    "    auto update_ttl(std::chrono::milliseconds ttl) -> void\n    {\n        std::lock_guard guard{m_lock};\n        m_ttl = ttl;", "    auto update_ttl(std::chrono::milliseconds ttl) -> void\n    {\n        m_ttl = ttl;")
mut("m44-utlru-update_ttl-rewrites-deadlines", "C05", H + "utlru_cache.hpp",
    "        std::lock_guard guard{m_lock};\n        m_ttl = ttl;", "        std::lock_guard guard{m_lock};\n        for (auto idx : m_ttl_list)\n        {\n            m_elements[idx].m_expire_time += (ttl - m_ttl);\n        }\n        m_ttl = ttl;")
# (m45, "clear() renumbers the slot list only when the cache was full", turned out to be an equivalent mutant: the order of
#  free slots is unobservable as long as every index appears exactly once.)
mut("m09-ut_map-purge-boundary", "C04,C17", H + "ut_map.hpp",
    "ttl_iter != ttl_end && now >= ttl_iter->m_expire_time; ++ttl_iter)", "ttl_iter != ttl_end && now > ttl_iter->m_expire_time; ++ttl_iter)")
mut("m10-ut_set-update-not-refiled", "C04,C17", H + "ut_set.hpp",
    "        // Push to the end of the Ttl list.\n        m_ttl_list.splice(m_ttl_list.end(), m_ttl_list, element.m_ttl_position);\n\n        // Update the elements iterator to ttl_element.\n        element.m_ttl_position = std::prev(m_ttl_list.end());\n", "")
mut("m26-ut_map-clear-keeps-ttl-list", "C20,C08", H + "ut_map.hpp", "            m_keyed_elements.clear();\n            m_ttl_list.clear();", "            m_keyed_elements.clear();")
mut("m46-ut_map-find-skips-purge-when-key-present", "C04", H + "ut_map.hpp",
    "        std::lock_guard guard{m_lock};\n        const auto      now = std::chrono::steady_clock::now();\n\n        do_prune(now);\n\n        return do_find(key);",
    "        std::lock_guard guard{m_lock};\n        const auto      now = std::chrono::steady_clock::now();\n\n        if (m_keyed_elements.find(key) == m_keyed_elements.end())\n        {\n            do_prune(now);\n        }\n\n        return do_find(key);")
# ---- LFU / LFUDA -------------------------------------------------------------------------------
mut("m11-lfu-fuc-peek-counts", "C11,C19", H + "lfu_cache.hpp",
    "            element& e = *keyed_position->second;\n            // Don't update the elements access in the LRU if peeking.\n            if (!peek)\n            {\n                do_access(e);\n            }\n            return {std::make_pair(",
    "            element& e = *keyed_position->second;\n            do_access(e);\n            return {std::make_pair(")
mut("m12-lfu-update-no-count", "C11", H + "lfu_cache.hpp",
    "        e.m_value  = std::move(value);\n\n        do_access(e);", "        e.m_value  = std::move(value);")
mut("m47-lfu-find_range-counts-once", "C11,C18", H + "lfu_cache.hpp",
    "            for (auto& key : key_range)\n            {\n                output.emplace_back(key, do_find(key, peek));\n            }",
    "            const key_type* last = nullptr;\n            for (auto& key : key_range)\n            {\n                output.emplace_back(key, do_find(key, peek || (last != nullptr && *last == key)));\n                last = &key;\n            }")
mut("m14-lfuda-age-boundary", "C14", H + "lfuda_cache.hpp",
    "(*da_start).m_dynamic_age + m_dynamic_age_tick < now)", "(*da_start).m_dynamic_age + m_dynamic_age_tick <= now)")
mut("m15-lfuda-age-no-restart", "C14", H + "lfuda_cache.hpp",
    "            element& e      = *da_start;\n            e.m_dynamic_age = now;", "            element& e      = *da_start;\n            e.m_dynamic_age += m_dynamic_age_tick / 2;")
mut("m16-lfuda-prune-no-aging", "C14", H + "lfuda_cache.hpp",
    "            do_dynamic_age(now);\n\n            // Now delete", "            // Now delete")
mut("m48-lfuda-peek-touches-age", "C14,C19", H + "lfuda_cache.hpp",
    "            element& e = *keyed_position->second;\n            if (!peek)\n            {\n                do_access(e, now);\n            }\n            return {e.m_value};",
    "            element& e = *keyed_position->second;\n            if (!peek)\n            {\n                do_access(e, now);\n            }\n            else\n            {\n                e.m_dynamic_age = now;\n            }\n            return {e.m_value};")
# ---- FIFO / MRU / RR ---------------------------------------------------------------------------
mut("m17-fifo-update-moves-to-tail", "C12", H + "fifo_cache.hpp",
    "        e.m_value  = std::move(value);\n\n        // there is no access update in a fifo cache.",
    "        e.m_value  = std::move(value);\n        m_fifo_list.splice(m_fifo_list.end(), m_fifo_list, keyed_position->second);")
mut("m18-fifo-erase-no-splice", "C03,C12,C02", H + "fifo_cache.hpp",
    "        if (fifo_position != m_fifo_list.begin())\n        {\n            m_fifo_list.splice(m_fifo_list.begin(), m_fifo_list, fifo_position);\n        }\n", "")
mut("m34-fifo-find-iter-lock-per-element", "C06", H + "fifo_cache.hpp",
    "        {\n            std::lock_guard guard{m_lock};\n            while (begin != end)\n            {\n                output.emplace_back(*begin, do_find(*begin));",
    "        {\n            while (begin != end)\n            {\n                std::lock_guard guard{m_lock};\n                output.emplace_back(*begin, do_find(*begin));")
mut("m19-mru-update-no-recency", "C13", H + "mru_cache.hpp",
    "        e.m_value  = std::move(value);\n\n        // Move to most recently used end.\n        do_access(e);", "        e.m_value  = std::move(value);")
mut("m49-mru-erase-last-keeps-index", "C01,C02", H + "mru_cache.hpp",
    "        if (e.m_mru_position != std::prev(m_mru_end))\n        {\n            m_mru_list.splice(m_mru_end, m_mru_list, e.m_mru_position);\n        }\n        --m_mru_end;\n\n        m_keyed_elements.erase(e.m_keyed_position);",
    "        if (e.m_mru_position != std::prev(m_mru_end))\n        {\n            m_mru_list.splice(m_mru_end, m_mru_list, e.m_mru_position);\n            m_keyed_elements.erase(e.m_keyed_position);\n        }\n        else if (m_used_size > 1)\n        {\n            m_keyed_elements.erase(e.m_keyed_position);\n        }\n        --m_mru_end;\n")
mut("m21-rr-dist-skips-last", "C15", H + "rr_cache.hpp",
    "            std::uniform_int_distribution<size_t> dist{0, m_open_list_end - 1};", "            std::uniform_int_distribution<size_t> dist{0, m_open_list_end > 1 ? m_open_list_end - 2 : 0};")
mut("m22-rr-dist-skips-first", "C15", H + "rr_cache.hpp",
    "            std::uniform_int_distribution<size_t> dist{0, m_open_list_end - 1};", "            std::uniform_int_distribution<size_t> dist{m_open_list_end > 1 ? size_t{1} : size_t{0}, m_open_list_end - 1};")
# (m50, "rr update writes through m_open_list[position]", is an equivalent mutant once the back-pointers are kept in sync by the D1 fix.)
mut("m35-lfu-erase_range-lock-per-element", "C06", H + "lfu_cache.hpp",
    "        std::lock_guard guard{m_lock};\n        for (auto& key : key_range)\n        {\n            auto keyed_position = m_keyed_elements.find(key);",
    "        for (auto& key : key_range)\n        {\n            std::lock_guard guard{m_lock};\n            auto keyed_position = m_keyed_elements.find(key);")
mut("m51-tlru-clean-count-before-lock", "C06,C07", H + "tlru_cache.hpp",
    "        auto now = std::chrono::steady_clock::now();\n\n        std::lock_guard guard{m_lock};\n        size_t          start_size = m_ttl_list.size();",
    "        auto   now        = std::chrono::steady_clock::now();\n        size_t start_size = m_ttl_list.size();\n\n        std::lock_guard guard{m_lock};")
mut("m52-utlru-insert-ttl-before-lock", "C06,C07", H + "utlru_cache.hpp",
    "        auto now = std::chrono::steady_clock::now();\n\n        std::lock_guard guard{m_lock};\n        auto            expire_time = now + m_ttl;\n        return do_insert_update(",
    "        auto now         = std::chrono::steady_clock::now();\n        auto expire_time = now + m_ttl;\n\n        std::lock_guard guard{m_lock};\n        return do_insert_update(")


def main():
    os.makedirs(OUT, exist_ok=True)
    index = []
    for name, props, fname, old, new, count, nth in M:
        path = os.path.join(REPO, fname)
        src = open(path).read()
        n = src.count(old)
        if n == 0:
            print("!! %s: pattern not found in %s" % (name, fname))
            continue
        if nth is None and n != count:
            print("!! %s: pattern found %d times (expected %d)" % (name, n, count))
            continue
        dst = src.replace(old, new) if nth is None else None
        if nth is not None:
            parts = src.split(old)
            dst = old.join(parts[: nth + 1]) + new + old.join(parts[nth + 1:])
        diff = "".join(difflib.unified_diff(src.splitlines(True), dst.splitlines(True), "a/" + fname, "b/" + fname))
        with open(os.path.join(OUT, name + ".diff"), "w") as f:
            f.write(diff)
        index.append((name, props))
    with open(os.path.join(OUT, "INDEX.txt"), "w") as f:
        f.write("m01-lru-insert-range-lock-per-element C06\n")
        # reverts of the four fix: commits (git diff <fix> <fix>^ -- inc)
        f.write("r-revert-fix-d1 C01,C08\nr-revert-fix-d2 C14\nr-revert-fix-d3 C16,C17\nr-revert-fix-d4 C07,C06\n")
        for name, props in index:
            f.write("%s %s\n" % (name, props))
    print("wrote %d mutants" % len(index))


if __name__ == "__main__":
    sys.exit(main())
