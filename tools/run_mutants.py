#!/usr/bin/env python3
"""Sensitivity self-test: for every patch listed in an index file (default mutants/INDEX.txt: "<name> <prop>[,<prop>...]"),
apply it to a scratch copy of /repo, run the repository's own 167 tests on the copy (a mutant the tests catch is not
interesting) and the quick checks of the properties it is aimed at; writes <dir>/RESULTS.md.

  tools/run_mutants.py [--dir mutants] [--only name-substring] [-j N] [--tier quick] [--all-props]
"""
import argparse
import concurrent.futures as cf
import os
import re
import shutil
import subprocess
import sys
import time

VERIF = os.path.dirname(os.path.dirname(os.path.abspath(__file__)))
CATCH_O = os.path.join(VERIF, ".build", "catch-cache")
ALL = ["C%02d" % i for i in range(1, 21)]


def sh(cmd, **kw):
    return subprocess.run(cmd, shell=True, capture_output=True, text=True, **kw)


def ensure_catch():
    os.makedirs(CATCH_O, exist_ok=True)
    for src in ("catch.cpp", "main.cpp"):
        o = os.path.join(CATCH_O, src.replace(".cpp", ".o"))
        if not os.path.exists(o):
            r = sh("g++ -std=c++17 -O1 -I/repo/inc -I/repo/test -c /repo/test/%s -o %s" % (src, o))
            if r.returncode != 0:
                print(r.stderr[-2000:])
                sys.exit(2)


def run_repo_tests(scratch):
    """Builds the 10 test TUs + src/*.cpp against the scratch headers, links with the cached Catch objects, runs."""
    b = os.path.join(scratch, "_tb")
    os.makedirs(b, exist_ok=True)
    srcs = [os.path.join(scratch, "test", f) for f in sorted(os.listdir(os.path.join(scratch, "test"))) if f.startswith("test_") and f.endswith(".cpp")]
    srcs += [os.path.join(scratch, "src", f) for f in sorted(os.listdir(os.path.join(scratch, "src"))) if f.endswith(".cpp")]
    procs = []
    for s in srcs:
        o = os.path.join(b, os.path.basename(s) + ".o")
        procs.append((s, subprocess.Popen("g++ -std=c++17 -O1 -w -I%s/inc -I%s/test -c %s -o %s" % (scratch, scratch, s, o), shell=True, stderr=subprocess.PIPE, text=True)))
    for s, p in procs:
        _, err = p.communicate()
        if p.returncode != 0:
            return "does not compile: " + err[-300:]
    r = sh("g++ %s/*.o %s/catch.o %s/main.o -o %s/t -pthread && %s/t" % (b, CATCH_O, CATCH_O, b, b), timeout=600)
    shutil.rmtree(b, ignore_errors=True)
    m = re.search(r"(All tests passed[^\n]*|test cases:[^\n]*)", r.stdout)
    return m.group(1) if m else "tests: rc=%d %s" % (r.returncode, (r.stdout + r.stderr)[-200:])


def one(job):
    name, props, mdir, tier, seed = job
    patch = os.path.join(mdir, name + ".diff")
    if not os.path.exists(patch):
        patch = os.path.join(mdir, name, "patch.diff")
    scratch = "/tmp/mut-%s-%d" % (re.sub(r"\W", "_", name)[:40], os.getpid())
    shutil.rmtree(scratch, ignore_errors=True)
    os.makedirs(scratch)
    res = {"name": name, "props": {}, "tests": "?"}
    try:
        for d in ("inc", "src", "test"):
            shutil.copytree(os.path.join("/repo", d), os.path.join(scratch, d))
        r = sh("patch -p1 -s -d %s -i %s" % (scratch, os.path.abspath(patch)))
        if r.returncode != 0:
            res["tests"] = "PATCH FAILED " + (r.stdout + r.stderr)[-200:]
            return res
        res["tests"] = run_repo_tests(scratch)
        env = dict(os.environ)
        env.update({"VERIF_REPO": scratch, "VERIF_EVIDENCE_DIR": os.path.join(scratch, "_ev"), "VERIF_REPLAY_DIR": os.path.join(scratch, "_rp"), "VERIF_SEED": str(seed)})
        for p in props:
            t0 = time.time()
            r = subprocess.run([sys.executable, os.path.join(VERIF, "check.py"), "--property", p, "--tier", tier], capture_output=True, text=True, env=env, cwd=VERIF)
            tags = sorted(set(re.findall(r"^  # \S+ ([\w.,-]+):", r.stdout, re.M)))
            first = re.search(r"^  # (.*)$", r.stdout, re.M)
            rc = r.returncode
            if rc == 1 and "VIOLATION property=" not in r.stdout:
                rc = 2  # exit 1 without a VIOLATION line is not a verdict
            res["props"][p] = {"rc": rc, "tags": tags[:6], "first": first.group(1)[:200] if first else "", "s": round(time.time() - t0)}
            if rc == 2:
                res["props"][p]["first"] = (r.stdout + r.stderr)[-300:].replace("\n", " ")
        return res
    finally:
        shutil.rmtree(scratch, ignore_errors=True)


def main():
    ap = argparse.ArgumentParser()
    ap.add_argument("--dir", default=os.path.join(VERIF, "mutants"))
    ap.add_argument("--index", default=None)
    ap.add_argument("--only", default="")
    ap.add_argument("-j", type=int, default=2)
    ap.add_argument("--tier", default="quick")
    ap.add_argument("--seed", type=int, default=1)
    ap.add_argument("--all-props", action="store_true", help="run every property's check against each mutant (cross-alarm matrix)")
    ap.add_argument("--out", default=None)
    ap.add_argument("--skip", default="", help="with --all-props: properties to leave out (a change's own property always runs)")
    a = ap.parse_args()
    ensure_catch()
    idx = a.index or os.path.join(a.dir, "INDEX.txt")
    jobs = []
    for line in open(idx):
        if not line.strip() or line.startswith("#"):
            continue
        name, props = line.split()[:2]
        if a.only and a.only not in name:
            continue
        if a.all_props:
            skip = set(a.skip.split(",")) - set(props.split(","))
            plist = [p for p in ALL if p not in skip]
        else:
            plist = props.split(",")
        jobs.append((name, plist, a.dir, a.tier, a.seed))
    results = []
    with cf.ThreadPoolExecutor(a.j) as ex:
        for res in ex.map(one, jobs):
            results.append(res)
            line = "%-48s tests=%-44s " % (res["name"], res["tests"][:44])
            for p, d in res["props"].items():
                line += " %s:%s%s" % (p, {0: "miss", 1: "CAUGHT", 2: "HARNESS"}.get(d["rc"], str(d["rc"])), ("[" + ",".join(d["tags"])[:60] + "]") if d["tags"] else "")
            print(line, flush=True)
    out = a.out or os.path.join(a.dir, "RESULTS.md")
    with open(out, "w") as f:
        f.write("# Sensitivity results (%s tier, VERIF_SEED=%d)\n\n" % (a.tier, a.seed))
        f.write("| change | repository tests | checks run -> outcome (tags) |\n|---|---|---|\n")
        for res in results:
            cells = []
            for p, d in res["props"].items():
                cells.append("%s: %s %s" % (p, {0: "not caught", 1: "**caught**", 2: "harness failure"}.get(d["rc"], str(d["rc"])), ",".join(d["tags"])))
            f.write("| %s | %s | %s |\n" % (res["name"], res["tests"][:60], "; ".join(cells)))
    # make sure the real tree's build survives and scratch builds are dropped
    subprocess.run([sys.executable, "-c", "import sys; sys.path.insert(0, %r); import check; check.prune_builds(check.tree_hash())" % VERIF], cwd=VERIF)


if __name__ == "__main__":
    main()
