#!/usr/bin/env python3
"""Writes /verif/MANIFEST.json from the tables below (run after changing which properties are claimed)."""
import json
import os
import subprocess

VERIF = os.path.dirname(os.path.dirname(os.path.abspath(__file__)))

TECH = {
    "C01": ("online specification-following monitor over generated histories; unique value ids; ASan/UBSan/checked-iterator build", "5 C01"),
    "C02": ("online monitor: size()/empty()/capacity() probed after every operation against the executable specification", "5 C02"),
    "C03": ("online monitor with per-operation audits (side-effect-free lookups of the whole key universe); loss attribution by sighting", "5 C03"),
    "C04": ("virtual clock (link-time steady_clock replacement) + online monitor; boundary-instant workload", "5 C04"),
    "C05": ("virtual clock + online monitor; deadline probing at deadline-1ns / deadline", "5 C05"),
    "C06": ("recorded concurrent histories (real threads, delay injection at lock hooks and inside value copies, ASan/UBSan build) checked for linearizability against the executable specification (Wing-Gong/Lowe search); controlled scheduler enumerating lock-granularity interleavings", "5 C06"),
    "C07": ("ThreadSanitizer (-O0 and -O2) on an all-public-methods free-running driver with no harness synchronisation; library-frame filter; method-pair overlap matrix", "5 C07"),
    "C08": ("AddressSanitizer + UBSan + libstdc++ debug-mode iterators (g++), clang sanitizers and valgrind memcheck on the monitored drivers; instance-registering value type for exactly-once destruction", "5 C08"),
    "C09": ("online monitor: allow-mode rule evaluated on the specification state for every insert; audits and deadline probes for rejected calls", "5 C09"),
    "C10": ("online monitor: victim of every single-key full insert compared with the specification's least-recently-used resident", "5 C10"),
    "C11": ("online monitor: use counts audited through find_with_use_count(peek) after every operation; victim minimality", "5 C11"),
    "C12": ("online monitor: victim of every full insert compared with the earliest-inserted resident", "5 C12"),
    "C13": ("online monitor: victim of every full insert compared with the most-recently-used resident", "5 C13"),
    "C14": ("virtual clock + online monitor: aging points, exact floor(count*ratio), dynamically_age() return value", "5 C14"),
    "C15": ("online monitor per eviction + statistical monitor over long runs (insertion-age rank histogram, survival bound) with a deterministic injected random_device", "5 C15"),
    "C16": ("virtual clock + online monitor: full inserts with expired residents present must keep every live key", "5 C16"),
    "C17": ("virtual clock + online monitor: clean_expired_values() count and completeness; implicit purge of ut_map/ut_set", "5 C17"),
    "C18": ("differential twins: range call vs the same single calls on a second live instance, all later results compared", "5 C18"),
    "C19": ("differential twins: history with spliced no-effect calls vs the bare history on a second live instance", "5 C19"),
    "C20": ("differential twins: clear()ed instance vs freshly constructed instance under arbitrary continuations", "5 C20"),
}

LEVEL_TEXT = {
    "seq": "Exploration by runtime monitoring: thousands of generated histories executed on the real container (sanitizer build) while an "
           "oracle derived from the property statement judges every observable result. Holds on the executions explored, not for all histories; "
           "the evidence file lists what was observed (events, triggers, distinct non-trivial cases).",
    "C06": "Exploration: real-thread rounds with recorded invocation/response histories judged by a linearizability checker, plus enumeration of "
           "lock-granularity schedules of small thread programs under a cooperative scheduler (exhaustive for the stated program sizes). "
           "Schedules below lock granularity and unbounded thread counts are out of reach.",
    "C07": "Exploration: ThreadSanitizer's happens-before race detection on executions of an all-method-pairs stress driver; reports races "
           "on executed paths only. The evidence lists which method pairs were observed in flight together.",
}

NOTE = ("Trusted base: the executable specification in harness/model.hpp (written from the property text), the link-time replacement of "
        "steady_clock::now()/random_device, the compiler sanitizers. Verdicts are about the executions explored.")


def main():
    import sys
    sys.path.insert(0, VERIF)
    from props import PROPS
    claimed = [p for p in sorted(PROPS) if os.environ.get("UNCLAIMED", "").find(p) < 0]
    hooks_commit = subprocess.run(["git", "-C", "/repo", "log", "--format=%H", "--grep=verif hooks", "-n", "5"], capture_output=True, text=True).stdout.split()
    checks = []
    for p in claimed:
        tech, ref = TECH[p]
        checks.append({
            "property_id": p,
            "quick_cmd": "python3 check.py --property %s --tier quick" % p,
            "thorough_cmd": "python3 check.py --property %s --tier thorough" % p,
            "evidence_file": "/verif/evidence/%s.json" % p,
            "replay_cmd_template": "python3 check.py --replay {path}",
            "engine": {"seq": "seq_driver", "conc": "conc_driver+sched", "race": "race_driver"}[PROPS[p]["engine"]],
            "level_claimed": {"category": "exploration", "text": LEVEL_TEXT.get(p, LEVEL_TEXT["seq"]), "design_ref": "DESIGN.md section " + ref},
            "level_note": NOTE,
            "technique": "runtime monitoring: " + tech,
        })
    unclaimed = [p for p in sorted(PROPS) if p not in claimed]
    man = {
        "version": 1,
        "setup_cmd": "python3 check.py --build-only san",
        "hooks": {
            "guard": "CAPPUCCINO_VERIF_HOOKS",
            "enable": "harness translation units are compiled with -DCAPPUCCINO_VERIF_HOOKS -I/repo/inc (header-only library; check.py rebuilds from /repo's working tree, keyed by a content hash)",
            "baseline_off_cmd": "cmake -G Ninja -S /repo -B /repo/_build && cmake --build /repo/_build && ctest --test-dir /repo/_build -j8 --timeout 900 --output-on-failure",
            "source_commits": hooks_commit,
            "add_only": True,
        },
        "engines": [
            {"name": "seq_driver", "path": "harness/seq_driver.cpp", "serves_properties": [p for p in claimed if PROPS[p]["engine"] == "seq"],
             "kind_free_text": "sequential driver: generated histories on the real containers under an online specification-following monitor; differential twins; replay"},
            {"name": "conc_driver+sched", "path": "harness/conc_driver.cpp", "serves_properties": [p for p in claimed if PROPS[p]["engine"] == "conc"],
             "kind_free_text": "real-thread rounds with history recording + linearizability checker; cooperative scheduler over lock hooks"},
            {"name": "race_driver", "path": "harness/race_driver.cpp", "serves_properties": [p for p in claimed if PROPS[p]["engine"] == "race"],
             "kind_free_text": "free-running all-methods stress under ThreadSanitizer"},
        ],
        "checks": checks,
        "not_applicable": [{"property_id": p, "reason": os.environ.get("UNCLAIMED_REASON", "check not yet built in this snapshot")} for p in unclaimed],
        "notes": "Every check: exit 0 held on everything explored (KNOWN-FINDING lines for entries of KNOWN_FINDINGS.txt), exit 1 with VIOLATION lines, exit 2 harness failure. VERIF_SEED selects the PRNG stream.",
    }
    with open(os.path.join(VERIF, "MANIFEST.json"), "w") as f:
        json.dump(man, f, indent=1)
    try:
        import jsonschema
        jsonschema.validate(man, json.load(open("/root/.vp/MANIFEST.schema.json")))
        print("MANIFEST.json valid;", len(checks), "checks;", len(unclaimed), "not claimed")
    except ImportError:
        print("written (jsonschema not available to validate)")


if __name__ == "__main__":
    main()
