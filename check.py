#!/usr/bin/env python3
"""Orchestrator of the runtime-monitoring checks for libcappuccino (DESIGN.md 3.9).

  python3 check.py --property C01 --tier quick|thorough
  python3 check.py --replay replays/<file>
  python3 check.py --build-only [flavour ...]

Exit status: 0 the property held on everything explored (known findings are printed, not failed);
1 an unlisted violation (a line "VIOLATION property=<id> replay=<path>" per violation); 2 harness
failure (nothing observed, compile error, evidence invalid) - never to be read as "held".
"""
import argparse
import array
import concurrent.futures as cf
import fcntl
import hashlib
import json
import os
import re
import shutil
import subprocess
import sys
import time

VERIF = os.path.dirname(os.path.abspath(__file__))
REPO = os.environ.get("VERIF_REPO", "/repo")
HARNESS = os.path.join(VERIF, "harness")
BUILD_ROOT = os.path.join(VERIF, ".build")
EVIDENCE = os.environ.get("VERIF_EVIDENCE_DIR", os.path.join(VERIF, "evidence"))
REPLAYS = os.environ.get("VERIF_REPLAY_DIR", os.path.join(VERIF, "replays"))
KNOWN = os.path.join(VERIF, "KNOWN_FINDINGS.txt")
NCPU = max(1, min(16, os.cpu_count() or 1))

sys.path.insert(0, VERIF)
from props import PROPS, EV, KINDS  # noqa: E402

# ------------------------------------------------------------------------------------------------
# build
COMMON = "-std=c++17 -g1 -fno-omit-frame-pointer -DCAPPUCCINO_VERIF_HOOKS -I{repo}/inc -I{harness} -pthread"
FLAVOURS = {
    "san": ("g++", "-O1 -fsanitize=address,undefined -fno-sanitize-recover=all -D_GLIBCXX_DEBUG -D_GLIBCXX_DEBUG_PEDANTIC"),
    "asan": ("g++", "-O1 -fsanitize=address,undefined -fno-sanitize-recover=all -D_GLIBCXX_ASSERTIONS"),
    "opt": ("g++", "-O2"),
    "o1": ("g++", "-O1"),
    "tsan0": ("g++", "-O0 -fsanitize=thread -DVH_ONLY_TYPESET0"),
    "tsan2": ("g++", "-O2 -fsanitize=thread -DVH_ONLY_TYPESET0"),
    "clang-san": ("clang++", "-O1 -fsanitize=address,undefined -fno-sanitize-recover=all -fno-sanitize=object-size"),
}
ADAPTERS = ["adapter_%s.cpp" % k.replace("-", "_") for k in
            ["fifo", "lfu", "lfuda", "lru", "mru", "rr", "tlru", "utlru", "ut_map", "ut_set"]]
LIB_SRCS = ["vclock.cpp", "vrandom.cpp", "factory.cpp"] + ADAPTERS
TARGETS = {
    "seq_driver": ["seq_driver.cpp"] + LIB_SRCS,
    "conc_driver": ["conc_driver.cpp"] + LIB_SRCS,
    "race_driver": ["race_driver.cpp"] + LIB_SRCS,
}


def tree_hash(repo=None):
    repo = repo or REPO
    h = hashlib.sha256()
    for root in (os.path.join(repo, "inc"), os.path.join(repo, "src"), HARNESS):
        for dp, dn, fn in sorted(os.walk(root)):
            dn.sort()
            for f in sorted(fn):
                p = os.path.join(dp, f)
                h.update(p.encode())
                with open(p, "rb") as fh:
                    h.update(fh.read())
    h.update(json.dumps(FLAVOURS, sort_keys=True).encode())
    h.update(COMMON.encode())
    return h.hexdigest()[:16]


def harness_fail(msg):
    print("HARNESS-FAILURE: " + msg, flush=True)
    sys.exit(2)


def build(flavour, target):
    """Build (or reuse) target for flavour from the current working tree; returns the binary path."""
    th = tree_hash()
    bdir = os.path.join(BUILD_ROOT, th, flavour)
    os.makedirs(bdir, exist_ok=True)
    try:
        os.utime(bdir, None)  # "in use now" marker for prune_builds
    except OSError:
        pass
    cxx, fl = FLAVOURS[flavour]
    flags = (COMMON.format(repo=REPO, harness=HARNESS) + " " + fl).split()
    binp = os.path.join(bdir, target)
    lock = open(os.path.join(bdir, ".lock"), "w")
    fcntl.flock(lock, fcntl.LOCK_EX)
    try:
        if os.path.exists(binp):
            return binp
        srcs = TARGETS[target]
        todo = []
        for s in srcs:
            o = os.path.join(bdir, s.replace(".cpp", ".o"))
            if not os.path.exists(o):
                todo.append((s, o))

        def comp(so):
            s, o = so
            tmp = o + ".tmp%d" % os.getpid()
            r = subprocess.run([cxx] + flags + ["-c", os.path.join(HARNESS, s), "-o", tmp], capture_output=True, text=True)
            if r.returncode != 0:
                return s, r.stderr[-4000:]
            os.replace(tmp, o)
            return s, None

        with cf.ThreadPoolExecutor(NCPU) as ex:
            for s, err in ex.map(comp, todo):
                if err:
                    harness_fail("compiling %s (%s) failed:\n%s" % (s, flavour, err))
        objs = [os.path.join(bdir, s.replace(".cpp", ".o")) for s in srcs]
        tmp = binp + ".tmp%d" % os.getpid()
        r = subprocess.run([cxx] + flags + objs + ["-o", tmp], capture_output=True, text=True)
        if r.returncode != 0:
            harness_fail("linking %s (%s) failed:\n%s" % (target, flavour, r.stderr[-4000:]))
        os.replace(tmp, binp)
        return binp
    finally:
        fcntl.flock(lock, fcntl.LOCK_UN)
        lock.close()
        prune_builds(th)


def prune_builds(keep_hash):
    try:
        ds = [d for d in os.listdir(BUILD_ROOT) if os.path.isdir(os.path.join(BUILD_ROOT, d)) and re.fullmatch(r"[0-9a-f]{16}", d)]
        ds.sort(key=lambda d: os.path.getmtime(os.path.join(BUILD_ROOT, d)), reverse=True)
        keep = [keep_hash]
        if REPO != "/repo" and os.path.isdir("/repo/inc"):
            keep.append(tree_hash("/repo"))  # never evict the real tree's build while testing scratch copies
        keep += [d for d in ds if d not in keep][:2]
        now = time.time()
        for d in ds:
            if d in keep:
                continue
            # never remove a build that another check may be using right now: anything touched in the last 45 minutes stays
            newest = 0
            for dp, dn, fn in os.walk(os.path.join(BUILD_ROOT, d)):
                try:
                    newest = max(newest, os.path.getmtime(dp))
                except OSError:
                    pass
            if now - newest < 45 * 60:
                continue
            shutil.rmtree(os.path.join(BUILD_ROOT, d), ignore_errors=True)
    except OSError:
        pass


# ------------------------------------------------------------------------------------------------
# known findings
def load_known():
    known = {}
    if os.path.exists(KNOWN):
        for line in open(KNOWN):
            line = line.strip()
            m = re.match(r"known:\s+property=(\S+)\s+key=(\S+)\s+(.*)", line)
            if m:
                known[(m.group(1), m.group(2))] = m.group(3)
    return known


def violation_key(kind, tag, cfg_text, detail=""):
    """<container>.<clause>.<discriminator>: the discriminator names the configuration class that fails."""
    disc = "general"
    m = re.search(r"\bttl=(-?\d+)", cfg_text)
    if kind in ("ut_map", "ut_set") and m and int(m.group(1)) == 0:
        disc = "ttl0"
    return "%s.%s.%s" % (kind, tag, disc)


# ------------------------------------------------------------------------------------------------
SAN_ENV = {
    "ASAN_OPTIONS": "abort_on_error=1:detect_leaks=1:halt_on_error=1:allocator_may_return_null=1",
    "UBSAN_OPTIONS": "print_stacktrace=1:halt_on_error=1",
    "LSAN_OPTIONS": "exitcode=23",
}


def classify_crash(stderr, rc):
    s = stderr or ""
    if "AddressSanitizer" in s:
        m = re.search(r"AddressSanitizer: ([\w-]+)", s)
        return "asan:" + (m.group(1) if m else "error")
    if "LeakSanitizer" in s:
        return "lsan:leak"
    if "runtime error:" in s:
        m = re.search(r"runtime error: ([^\n]{0,80})", s)
        return "ubsan:" + (m.group(1).strip() if m else "error")
    if "Error: attempt to" in s or "_GLIBCXX_DEBUG" in s or "/debug/" in s:
        m = re.search(r"Error: ([^\n]{0,100})", s)
        return "glibcxx-debug:" + (m.group(1).strip() if m else "error")
    if "Assertion" in s and "failed" in s:
        return "glibcxx-assert"
    if "HARNESS-FAILURE" in s:
        return "harness"
    if rc == 98 or "HANG: a case exceeded" in s:
        return "hang"
    if "ERROR SUMMARY" in s or "Invalid read" in s or "Invalid write" in s or "uninitialised" in s:
        return "memcheck"
    return "signal:%d" % (-rc) if rc < 0 else "exit:%d" % rc


class SeqResult:
    def __init__(self):
        self.cases = 0
        self.cases_violated = 0
        self.inconclusive = 0
        self.ops = 0
        self.nontrivial_hashes = set()
        self.counters = {}
        self.ev = [0] * 64
        self.tags = {}
        self.violations = []  # dicts: kind, tags, cfg, ops, detail, op_index, mode, flavour
        self.crashes = []     # dicts: kind, what, journal, stderr, flavour, mode
        self.samples = []
        self.profiles = {}
        self.watchdog = 0
        self.per_kind = {}

    def add_json(self, d, flavour):
        self.cases += d["cases"]
        self.cases_violated += d["cases_violated"]
        self.inconclusive += d["cases_inconclusive"]
        self.ops += d["ops"]
        for k in ("lookups_checked", "audits", "audit_rows", "probes", "full_inserts", "cand_multi_steps", "rr_evictions",
                  "destroyed_nonempty", "twin_compared", "twin_spliced"):
            self.counters[k] = self.counters.get(k, 0) + d.get(k, 0)
        self.counters["cand_max"] = max(self.counters.get("cand_max", 0), d.get("cand_max", 0))
        for i, v in enumerate(d["ev"]):
            self.ev[i] += v
        for t, n in d["tags"].items():
            self.tags[t] = self.tags.get(t, 0) + n
        for p, n in d["profiles"].items():
            self.profiles[p] = self.profiles.get(p, 0) + n
        pk = self.per_kind.setdefault(d["kind"], {"cases": 0, "ops": 0, "nontrivial": 0})
        pk["cases"] += d["cases"]
        pk["ops"] += d["ops"]
        pk["nontrivial"] += d["nontrivial"]
        for v in d["violations"]:
            v = dict(v)
            v["kind"] = d["kind"]
            v["mode"] = d["mode"]
            v["flavour"] = flavour
            self.violations.append(v)
        for s in d["samples"]:
            if len(self.samples) < 6:
                s = dict(s)
                s["kind"] = d["kind"]
                s["mode"] = d["mode"]
                self.samples.append(s)


def run_seq_engine(res, flavour, mode, kinds, profiles, cases_per_kind, seed, tag, nops, typesets, ts, trigger_any, trigger_all,
                   noinsr=False, samples=1, valgrind=False, watchdog_s=900, workdir=None):
    """Runs seq_driver over the given kinds, spreading the cases of each kind over worker processes."""
    binp = build("o1" if valgrind else flavour, "seq_driver")
    os.makedirs(workdir, exist_ok=True)
    jobs = []
    # split each kind over a number of workers proportional to the core count
    wpk = max(1, min(NCPU, (NCPU * 2) // max(1, len(kinds))))
    for kind in kinds:
        for w in range(wpk):
            jobs.append((kind, w, wpk))

    def run_job(job):
        kind, w, nw = job
        base = os.path.join(workdir, "%s-%s-%s-%d" % (flavour, mode, kind, w))
        start = 0
        outs = []
        restarts = 0
        vf = base + ".viol"
        if os.path.exists(vf):
            os.remove(vf)

        def read_viol():
            # violations are appended by the driver as it finds them, so those found before a later crash survive
            vs = []
            if os.path.exists(vf):
                for ln in open(vf):
                    ln = ln.strip()
                    if ln:
                        try:
                            vs.append(json.loads(ln))
                        except ValueError:
                            pass
            return vs

        while True:
            out, jr, hs = base + ".json", base + ".journal", base + ".hashes%d" % restarts
            for f in (out,):
                if os.path.exists(f):
                    os.remove(f)
            cmd = [binp, "--mode", mode, "--kind", kind, "--profiles", ",".join(profiles), "--cases", str(cases_per_kind),
                   "--seed", str(seed), "--tag", tag, "--worker", str(w), "--nworkers", str(nw), "--start", str(start),
                   "--nops", "%d:%d" % nops, "--typesets", str(typesets), "--ts", str(ts), "--trigger-any", hex(trigger_any),
                   "--trigger-all", hex(trigger_all), "--samples", str(samples), "--journal", jr, "--out", out, "--hashes", hs, "--viol-file", vf]
            if noinsr:
                cmd.append("--noinsr")
            cmd += ["--case-timeout", str((20 + nops[1] // 50) * (40 if valgrind else 1))]
            if valgrind:
                cmd = ["valgrind", "--error-exitcode=97", "--quiet", "--leak-check=full", "--errors-for-leak-kinds=definite",
                       "--track-origins=no"] + cmd
            env = dict(os.environ)
            env.update(SAN_ENV)
            try:
                r = subprocess.run(cmd, capture_output=True, text=True, env=env, timeout=watchdog_s)
            except subprocess.TimeoutExpired:
                outs.append(("watchdog", kind, None, None))
                return outs
            if r.returncode == 0 and os.path.exists(out):
                d = json.load(open(out))
                d["violations"] = read_viol()
                outs.append(("ok", kind, d, hs))
                return outs
            # crashed inside a case: keep the journal as the witness, then resume after that case
            journal = open(jr).read() if os.path.exists(jr) else ""
            what = classify_crash(r.stderr, r.returncode)
            outs.append(("crash", kind, {"what": what, "journal": journal, "stderr": r.stderr[-6000:], "flavour": flavour, "mode": mode}, None))
            m = re.search(r"case_index=(\d+)", journal)
            hangs = sum(1 for o in outs if o[0] == "crash" and o[2]["what"] == "hang")
            if what == "harness" or not m or restarts >= 400 or hangs >= 2:
                vs = read_viol()
                if vs:
                    # the worker never finished: hand over what it had found (counters of the lost segments are not known)
                    outs.append(("partial", kind, {"mode": mode, "kind": kind, "violations": vs}, None))
                return outs
            start = int(m.group(1)) + 1
            restarts += 1

    with cf.ThreadPoolExecutor(NCPU) as ex:
        for outs in ex.map(run_job, jobs):
            for status, kind, payload, hs in outs:
                if status == "ok":
                    res.add_json(payload, flavour)
                    if hs and os.path.exists(hs):
                        a = array.array("Q")
                        with open(hs, "rb") as fh:
                            data = fh.read()
                        a.frombytes(data[: len(data) // 8 * 8])
                        res.nontrivial_hashes.update(a)
                elif status == "partial":
                    for v in payload["violations"]:
                        v = dict(v)
                        v["kind"] = kind
                        v["mode"] = payload["mode"]
                        v["flavour"] = flavour
                        res.violations.append(v)
                        for t in v.get("tags", []):
                            res.tags[t] = res.tags.get(t, 0) + 1
                elif status == "crash":
                    payload["kind"] = kind
                    res.crashes.append(payload)
                else:
                    res.watchdog += 1
    return res


# ------------------------------------------------------------------------------------------------
def write_replay(prop, seed, n, v):
    os.makedirs(REPLAYS, exist_ok=True)
    path = os.path.join(REPLAYS, "%s-%d-%d.txt" % (prop, seed, n))
    with open(path, "w") as f:
        f.write("# property=%s tags=%s flavour=%s mode=%s\n" % (prop, ",".join(v.get("tags", [])), v.get("flavour", ""), v.get("mode", "model")))
        f.write("# detail: %s\n" % v.get("detail", "").replace("\n", " "))
        if "journal" in v:
            f.write("# crash: %s\n" % v.get("what", ""))
            f.write(v["journal"])
            f.write("# --- stderr (tail) ---\n")
            for line in v.get("stderr", "").splitlines()[-60:]:
                f.write("# " + line + "\n")
        else:
            f.write(v["cfg"] + "\n")
            for line in v["ops"]:
                f.write(line + "\n")
    return path


def validate_evidence(ev):
    try:
        import jsonschema
        schema = json.load(open("/root/.vp/EVIDENCE.schema.json"))
        jsonschema.validate(ev, schema)
    except ImportError:
        for k in ("property_id", "tier", "seed", "level", "coverage", "wall_s"):
            if k not in ev:
                raise ValueError("evidence lacks " + k)
        c = ev["coverage"]
        if c.get("evaluations", 0) < 1 or c.get("distinct_nontrivial", 0) < 2 or not c.get("samples"):
            raise ValueError("evidence coverage too thin")
    except FileNotFoundError:
        pass


def mix_seed(seed, n):
    return int(hashlib.sha256(("%d/%d" % (seed, n)).encode()).hexdigest()[:12], 16)


def finish_keyed(prop, tier, seed, t0, my_violations, coverage, assumptions, engine_failed, keyfn):
    finish(prop, tier, seed, t0, None, my_violations, coverage, assumptions, engine_failed, keyfn)


def finish(prop, tier, seed, t0, res, my_violations, coverage, assumptions, engine_failed=None, keyfn=None):
    """Known-findings matching, replay files, evidence, exit code."""
    known = load_known()
    printed_known = set()
    nviol = 0
    outlines = []
    for n, v in enumerate(my_violations):
        matched = None
        for tag in v["tags"]:
            if not tag.startswith(prop + "."):
                continue
            key = keyfn(v) if keyfn else violation_key(v["kind"], tag, v.get("cfg", v.get("journal", "")), v.get("detail", ""))
            if (prop, key) in known:
                matched = (key, known[(prop, key)])
            else:
                matched = None
                break
        if matched:
            if matched[0] not in printed_known:
                printed_known.add(matched[0])
                outlines.append("KNOWN-FINDING: property=%s %s [%s]" % (prop, matched[1], matched[0]))
            continue
        nviol += 1
        if nviol <= 20:
            path = write_replay(prop, seed, nviol, v)
            outlines.append("VIOLATION property=%s replay=%s" % (prop, path))
            outlines.append("  # %s %s: %s" % (v["kind"], ",".join(v["tags"]), v.get("detail", v.get("what", ""))[:300]))
    coverage["known_findings_matched"] = sorted(printed_known)
    ev = {
        "property_id": prop,
        "tier": tier,
        "seed": seed,
        "level": "exploration",
        "coverage": coverage,
        "assumptions": assumptions,
        "wall_s": round(time.time() - t0, 2),
        "violations": nviol,
    }
    os.makedirs(EVIDENCE, exist_ok=True)
    try:
        validate_evidence(ev)
        ok_ev = True
    except Exception as e:  # noqa: BLE001
        ok_ev = False
        outlines.append("HARNESS-FAILURE: evidence does not validate: %s" % str(e)[:300])
    with open(os.path.join(EVIDENCE, prop + ".json"), "w") as f:
        json.dump(ev, f, indent=1, sort_keys=True)
    for line in outlines:
        print(line)
    if nviol:
        print("RESULT property=%s tier=%s seed=%d: %d violation(s)" % (prop, tier, seed, nviol))
        sys.exit(1)
    if engine_failed:
        harness_fail(engine_failed)
    if not ok_ev:
        sys.exit(2)
    print("RESULT property=%s tier=%s seed=%d: held on everything explored (%d evaluations, %d distinct non-trivial, %.1fs)" % (
        prop, tier, seed, coverage["evaluations"], coverage["distinct_nontrivial"], time.time() - t0))
    sys.exit(0)


# ------------------------------------------------------------------------------------------------
def check_seq_property(prop, tier, seed):
    spec = PROPS[prop]
    t0 = time.time()
    workdir = os.path.join(BUILD_ROOT, "work", "%s-%s-%d-%d" % (prop, tier, seed, os.getpid()))
    res = SeqResult()
    runs_desc = []
    for run in spec["runs"]:
        if tier == "quick" and run.get("thorough_only"):
            continue
        cases = run["cases_quick"] if tier == "quick" else run["cases_thorough"]
        nops = run.get("nops", (40, 160))
        if tier == "thorough" and run.get("nops_thorough"):
            nops = run["nops_thorough"]
        flavours = run.get("flavours_quick", ["san"]) if tier == "quick" else run.get("flavours_thorough", run.get("flavours_quick", ["san"]))
        for flavour in flavours:
            valgrind = flavour == "memcheck"
            c = max(1, cases // 40) if valgrind else cases
            run_seq_engine(res, flavour, run["mode"], run["kinds"], run["profiles"], c, seed, prop + run.get("salt", ""), nops,
                           run.get("typesets", 7), 2,
                           run.get("trigger_any", 0), run.get("trigger_all", 0), noinsr=run.get("noinsr", False),
                           valgrind=valgrind, workdir=workdir, samples=1)
            runs_desc.append({"mode": run["mode"], "flavour": flavour, "kinds": run["kinds"], "profiles": run["profiles"],
                              "cases_per_kind": c, "nops": list(nops)})
    shutil.rmtree(workdir, ignore_errors=True)

    # violations of this property; everything else is "truncated by another property's violation"
    mine, others = [], {}
    for v in res.violations:
        if any(t.startswith(prop + ".") for t in v["tags"]):
            mine.append(v)
        else:
            for t in v["tags"]:
                others[t] = others.get(t, 0) + 1
    # "A call did not return" is the one verdict that rests on wall-clock time, so it is confirmed before it counts:
    # the journalled case is re-executed alone with a ten-minute budget; if it completes, the worker was merely slow
    # (loaded machine, large candidate sets) and the event is recorded as inconclusive, not as a hang.
    unconfirmed_hangs = 0
    confirmed = []
    hang_reruns = 0
    for c in res.crashes:
        if c["what"] != "hang":
            confirmed.append(c)
            continue
        hang_reruns += 1
        if hang_reruns > 2:
            # two hangs have already been put through the confirming re-run; the rest are neither counted nor re-run
            unconfirmed_hangs += 1
            continue
        jp = os.path.join(BUILD_ROOT, "work", "hang-%s-%d-%d.txt" % (prop, os.getpid(), len(confirmed)))
        os.makedirs(os.path.dirname(jp), exist_ok=True)
        with open(jp, "w") as f:
            f.write(c["journal"])
        still = False
        try:
            r = subprocess.run([build(c["flavour"] if c["flavour"] in FLAVOURS else "san", "seq_driver"), "--replay", jp, "--case-timeout", "90"],
                               capture_output=True, text=True, timeout=400, env=dict(os.environ, **SAN_ENV))
            still = r.returncode == 98
        except subprocess.TimeoutExpired:
            still = True
        finally:
            os.remove(jp)
        if still:
            confirmed.append(c)
        else:
            unconfirmed_hangs += 1
    res.crashes = confirmed
    crash_kinds = {}
    for c in res.crashes:
        crash_kinds[c["what"]] = crash_kinds.get(c["what"], 0) + 1
        if c["what"] == "harness":
            harness_fail("driver reported a harness failure:\n" + c["stderr"][-2000:])
        if prop == "C08":
            mine.append({"kind": c["kind"], "tags": ["C08." + c["what"].split(":")[0]], "journal": c["journal"], "stderr": c["stderr"],
                         "what": c["what"], "flavour": c["flavour"], "mode": c["mode"], "detail": c["what"], "cfg": c["journal"]})
        elif prop == "C20" and c["mode"] == "twin-clear" and re.search(r"^CLEAR", c["journal"], re.M):
            # a container that crashes in a continuation after clear() is certainly distinguishable from a fresh one
            mine.append({"kind": c["kind"], "tags": ["C20.crash-after-clear"], "journal": c["journal"], "stderr": c["stderr"],
                         "what": c["what"], "flavour": c["flavour"], "mode": c["mode"], "detail": "crash in a continuation after clear(): " + c["what"], "cfg": c["journal"]})

    # A sanitizer abort pre-empts the behavioural monitor.  So that a property's own check can still see what the
    # aborted history does to *its* clause, the journalled cases are re-executed in a build without sanitizers or
    # checked iterators (they may simply crash there too, which changes nothing).
    replayed_after_abort = 0
    if prop != "C08" and res.crashes:
        plain = build("o1", "seq_driver")
        for n, c in enumerate(res.crashes[:12]):
            if not c.get("journal") or c["what"] == "hang":
                continue
            jp = os.path.join(BUILD_ROOT, "work", "abort-%s-%d-%d.txt" % (prop, os.getpid(), n))
            os.makedirs(os.path.dirname(jp), exist_ok=True)
            with open(jp, "w") as f:
                f.write(c["journal"])
            try:
                r = subprocess.run([plain, "--replay", jp], capture_output=True, text=True, timeout=120)
            except subprocess.TimeoutExpired:
                continue
            finally:
                os.remove(jp)
            replayed_after_abort += 1
            m = re.search(r"^REPLAY: violated at op (-?\d+): ([^:]*): (.*)$", r.stdout, re.M)
            if not m:
                continue
            tags = m.group(2).split()
            if any(t.startswith(prop + ".") for t in tags):
                lines = [ln for ln in c["journal"].splitlines() if ln and not ln.startswith("# audit") and not ln.startswith("# destroy")]
                cfgl = [ln for ln in lines if ln.startswith("NEW")]
                mine.append({"kind": c["kind"], "tags": tags, "cfg": (cfgl[0] if cfgl else "") + " # mode=" + c["mode"], "mode": c["mode"], "flavour": "o1",
                             "ops": [ln for ln in c["journal"].splitlines() if ln and not ln.startswith("NEW") and not ln.startswith("# mode")],
                             "detail": m.group(3) + " [case aborted under the sanitizer build (%s); judged by re-executing its journal in a plain build]" % c["what"]})
    ev_named = {name: res.ev[bit] for name, bit in EV.items() if res.ev[bit]}
    trig = spec.get("trigger_counters", [])
    trig_counts = {t: (res.ev[EV[t]] if t in EV else res.counters.get(t, 0)) for t in trig}
    coverage = {
        "evaluations": res.cases,
        "distinct_nontrivial": len(res.nontrivial_hashes),
        "rule": spec["rule"],
        "samples": [{"container": s["kind"], "mode": s["mode"], "config": s["cfg"], "ops_with_observed_results": s["ops"][:60]} for s in res.samples[:3]],
        "monitored_operations": res.ops,
        "clause_evaluations": {k: res.counters.get(k, 0) for k in ("lookups_checked", "audits", "audit_rows", "probes", "full_inserts", "twin_compared", "twin_spliced", "rr_evictions", "destroyed_nonempty")},
        "trigger_counters": trig_counts,
        "events_observed": ev_named,
        "per_container": res.per_kind,
        "per_profile_cases": res.profiles,
        "runs": runs_desc,
        "inconclusive_cases": res.inconclusive,
        "candidate_set_max": res.counters.get("cand_max", 0),
        "steps_with_several_candidates": res.counters.get("cand_multi_steps", 0),
        "cases_truncated_by_other_properties": others,
        "cases_aborted": crash_kinds,
        "aborted_cases_rejudged_in_plain_build": replayed_after_abort,
        "slow_cases_taken_for_hangs_then_cleared_by_rerun": unconfirmed_hangs,
        "watchdog_fired": res.watchdog,
        "violation_tags_this_property": {t: n for t, n in res.tags.items() if t.startswith(prop + ".")},
        "unattributed": {t: n for t, n in res.tags.items() if t.startswith("UNATTRIBUTED")},
        "exhaustive": False,
    }
    for t in [t for t in res.tags if t.startswith("UNATTRIBUTED")]:
        print("UNATTRIBUTED: %s x%d (recorded in evidence; not a verdict for %s)" % (t, res.tags[t], prop))
    failed = None
    truncated = bool(others) or bool(res.crashes)
    if res.cases == 0:
        failed = "no case was executed"
    elif not truncated:
        zero = [t for t, n in trig_counts.items() if n == 0]
        if zero:
            failed = "trigger counter(s) never hit on a tree with no truncated cases: " + ", ".join(zero)
    if res.watchdog and not mine:
        print("INCONCLUSIVE: %d worker(s) hit the wall-clock watchdog" % res.watchdog)
    finish(prop, tier, seed, t0, res, mine, coverage, spec["assumptions"], failed)


def replay(path):
    txt = open(path).read()
    m = re.search(r"flavour=(\S+)", txt)
    flavour = m.group(1) if m and m.group(1) in FLAVOURS else "san"
    env = dict(os.environ)
    env.update(SAN_ENV)
    mm = re.search(r"# mode=(free|sched2|sched3|schedr) round_seed=(\d+)(?: points=(\d))?", txt)
    if mm:
        # a recorded concurrent round (C06)
        kind = re.search(r"NEW kind=(\S+)", txt).group(1)
        cmd = [build(flavour, "conc_driver"), "--kind", kind, "--replay-mode", mm.group(1), "--replay-seed", mm.group(2)]
        if "typeset=1" in txt:
            cmd.append("--typeset1")
        if mm.group(3):
            cmd += ["--points", mm.group(3)]
        ch = re.search(r"CHOICES ([\d ]*)", txt)
        if ch:
            cmd += ["--choices", ch.group(1).strip()]
        r = subprocess.run(cmd, env=env)
        sys.exit(1 if r.returncode != 0 else 0)
    if "ThreadSanitizer" in txt:
        kind = re.search(r"^# (\S+) C07", txt, re.M)
        print("C07 witness: the ThreadSanitizer report is in the file; re-run `python3 check.py --property C07` to reproduce (reports vary from run to run)")
        sys.exit(1)
    binp = build(flavour, "seq_driver")
    r = subprocess.run([binp, "--replay", path], env=env)
    sys.exit(1 if r.returncode != 0 else 0)


def main():
    ap = argparse.ArgumentParser()
    ap.add_argument("--property")
    ap.add_argument("--tier", default=os.environ.get("VERIF_TIER", "quick"))
    ap.add_argument("--replay")
    ap.add_argument("--build-only", nargs="*")
    a = ap.parse_args()
    seed = int(os.environ.get("VERIF_SEED", "1"))
    if a.replay:
        replay(a.replay)
    if a.build_only is not None:
        # everything the quick tier needs (thorough adds clang-san, o1, tsan2 on first use)
        todo = [("san", "seq_driver"), ("san", "conc_driver"), ("asan", "seq_driver"), ("opt", "conc_driver"), ("tsan0", "race_driver")]
        if a.build_only and a.build_only != ["san"]:
            todo = [(f, t) for f in a.build_only for t in TARGETS]
        for f, t in todo:
            print(build(f, t))
        sys.exit(0)
    if a.property not in PROPS:
        harness_fail("unknown property %s" % a.property)
    eng = PROPS[a.property]["engine"]
    if eng == "seq":
        check_seq_property(a.property, a.tier, seed)
    else:
        import conc_checks
        conc_checks.run(a.property, a.tier, seed)


if __name__ == "__main__":
    try:
        main()
    except SystemExit:
        raise
    except BaseException as e:  # noqa: BLE001 - an unexpected exception must never read as a verdict (exit 1)
        import traceback
        traceback.print_exc()
        print("HARNESS-FAILURE: unexpected %s: %s" % (type(e).__name__, str(e)[:300]), flush=True)
        sys.exit(2)
