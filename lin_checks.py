"""C06: linearizability of recorded concurrent histories + controlled-schedule enumeration."""
import concurrent.futures as cf
import json
import os
import shutil
import subprocess
import time

import check as ck
from props import KINDS


def run_c06(tier, seed):
    prop = "C06"
    t0 = time.time()
    workdir = os.path.join(ck.BUILD_ROOT, "work", "C06-%s-%d-%d" % (tier, seed, os.getpid()))
    os.makedirs(workdir, exist_ok=True)
    quick = tier == "quick"
    # (flavour, mode, n per kind, extra args, workers per kind)
    plan = [
        ("opt", "free", 3000 if quick else 80000, [], 2 if quick else 4),
        ("san", "free", 3000 if quick else 40000, ["--typeset1"], 2 if quick else 4),
        ("san", "sched2", 40 if quick else 320, ["--max-sched", "400" if quick else "3000"], 2 if quick else 4),
        ("san", "sched3", 8 if quick else 80, ["--max-sched", "400" if quick else "2000"], 1 if quick else 4),
        ("san", "schedr", 6 if quick else 120, ["--nrandom", "30" if quick else "100"], 1 if quick else 4),
    ]
    jobs = []
    for fl, mode, n, extra, wpk in plan:
        binp = ck.build(fl, "conc_driver")
        for kind in KINDS:
            for w in range(wpk):
                jobs.append((fl, mode, n, extra, kind, w, wpk, binp))

    def run(job):
        fl, mode, n, extra, kind, w, wpk, binp = job
        out = os.path.join(workdir, "%s-%s-%s-%d.json" % (fl, mode, kind, w))
        cmd = [binp, "--mode", mode, "--kind", kind, "--n", str(n), "--seed", str(seed), "--worker", str(w), "--nworkers", str(wpk), "--out", out] + extra
        env = dict(os.environ)
        env.update(ck.SAN_ENV)
        for attempt in range(2):
            try:
                r = subprocess.run(cmd, capture_output=True, text=True, env=env, timeout=900 if quick else 7200)
            except subprocess.TimeoutExpired:
                if attempt == 0:
                    continue  # one re-run before calling it a hang
                return job, "watchdog", None
            if r.returncode == 0 and os.path.exists(out):
                return job, "ok", json.load(open(out))
            return job, "crash", {"what": ck.classify_crash(r.stderr, r.returncode), "stderr": r.stderr[-6000:]}
        return job, "watchdog", None

    agg = {}
    tot = dict(rounds=0, histories=0, hist_ops=0, nodes=0, overlapped=0, range_overlap=0, inconclusive=0, setup_violations=0,
               schedules=0, programs=0, programs_exhaustive=0, distinct_lock_orders=0, distinct_histories=0, multi_final=0, probes=0, hangs=0)
    max_sched = 0
    mine, others = [], {}
    samples = []
    watchdog = 0
    with cf.ThreadPoolExecutor(ck.NCPU) as ex:
        for job, status, d in ex.map(run, jobs):
            fl, mode, n, extra, kind, w, wpk, binp = job
            if status == "watchdog":
                watchdog += 1
                mine.append({"kind": kind, "tags": ["C06.hang"], "cfg": "", "ops": [], "mode": mode, "flavour": fl, "pairkey": "hang." + mode,
                             "detail": "conc_driver %s did not finish within the watchdog twice (hang)" % mode, "journal": "", "what": "hang", "stderr": ""})
                continue
            if status == "crash":
                if d["what"] == "harness":
                    ck.harness_fail("conc_driver: " + d["stderr"][-1500:])
                mine.append({"kind": kind, "tags": ["C06.crash"], "cfg": "", "ops": [], "mode": mode, "flavour": fl, "pairkey": "crash." + d["what"].split(":")[0],
                             "detail": "concurrent calls crashed the process (%s); no sequential order does" % d["what"], "journal": "# %s %s\n" % (kind, mode), "what": d["what"], "stderr": d["stderr"]})
                continue
            for k in tot:
                tot[k] += d.get(k, 0)
            max_sched = max(max_sched, d.get("max_sched_per_program", 0))
            a = agg.setdefault(kind, {"histories": 0, "overlapped": 0, "schedules": 0, "programs_exhaustive": 0})
            a["histories"] += d["histories"]
            a["overlapped"] += d["overlapped"]
            a["schedules"] += d["schedules"]
            a["programs_exhaustive"] += d["programs_exhaustive"]
            for v in d["viol"]:
                rec = {"kind": kind, "tags": v["tags"], "cfg": v["lines"][0] if v["lines"] else "", "ops": v["lines"][1:], "mode": mode, "flavour": fl,
                       "detail": v["detail"], "pairkey": "general"}
                if any(t.startswith("C06.") for t in v["tags"]):
                    mine.append(rec)
                else:
                    for t in v["tags"]:
                        others[t] = others.get(t, 0) + 1
            for s in d["samples"]:
                if len(samples) < 3:
                    samples.append({"container": kind, "mode": mode, "history": s[:60]})
    shutil.rmtree(workdir, ignore_errors=True)

    coverage = {
        "evaluations": tot["histories"],
        "distinct_nontrivial": tot["distinct_histories"] if tot["overlapped"] else 0,
        "rule": "one evaluation = one executed concurrent history (2-4 threads x 1-4 ops over the whole method set on one thread_safe::yes container, after a "
                "monitored sequential set-up prefix, clock frozen) judged by the linearizability checker against the executable specification and by a quiescent "
                "audit (+ deadline probing for TTL containers); histories come from free-running rounds with delay injection at the lock hooks and from the "
                "cooperative scheduler (depth-first enumeration of lock-granularity schedules; random schedules for larger programs); distinct = distinct "
                "(configuration, recorded history incl. invocation/response stamps); a history counts only if it was judged (not inconclusive)",
        "samples": samples or [{"note": "no overlapping sample recorded"}],
        "history_operations": tot["hist_ops"],
        "histories_with_truly_overlapping_calls": tot["overlapped"],
        "histories_with_a_range_op_overlapping_another_op": tot["range_overlap"],
        "distinct_lock_acquisition_orders_observed_free_running": tot["distinct_lock_orders"],
        "checker_nodes": tot["nodes"],
        "histories_with_several_possible_end_states": tot["multi_final"],
        "quiescent_audits_and_deadline_probes": tot["probes"],
        "controlled_schedules_executed": tot["schedules"],
        "thread_programs": tot["programs"],
        "thread_programs_whose_schedule_space_was_enumerated_completely": tot["programs_exhaustive"],
        "max_schedules_of_one_program": max_sched,
        "inconclusive_histories": tot["inconclusive"],
        "rounds_dropped_by_sequential_violation_in_setup": tot["setup_violations"],
        "setup_violation_tags": others,
        "per_container": agg,
        "watchdog_fired": watchdog,
        "exhaustive": False,
    }
    assumptions = [
        "the sequential specification used by the checker is the one followed in the sequential checks",
        "the virtual clock is frozen while calls overlap (the property's own side condition)",
        "controlled schedules are at lock granularity: a body that takes no lock at all has no schedule point (covered by the free-running rounds and by C07)",
        "histories are short (<= 12 concurrent operations) so that the NP-complete search stays trivial; the checker's node cap makes a history inconclusive, never a verdict",
    ]
    failed = None
    if tot["histories"] == 0 and not mine:
        failed = "no history was judged"
    elif tot["overlapped"] == 0 and not mine:
        failed = "no history had overlapping calls"
    elif tot["schedules"] == 0 and not mine:
        failed = "the controlled scheduler executed nothing"
    ck.finish_keyed(prop, tier, seed, t0, mine, coverage, assumptions, failed,
                    keyfn=lambda v: ck.violation_key(v["kind"], [t for t in v["tags"] if t.startswith("C06.")][0], v.get("cfg", ""))
                    if v.get("pairkey", "general") == "general" else "%s.%s.%s" % (v["kind"], [t for t in v["tags"] if t.startswith("C06.")][0], v["pairkey"]))
