"""Concurrency checks: C07 (ThreadSanitizer on the race driver) and C06 (linearizability + controlled scheduler)."""
import concurrent.futures as cf
import glob
import json
import os
import re
import shutil
import subprocess
import time

import check as ck
from props import KINDS


# ------------------------------------------------------------------------------------------------
# C07
def parse_tsan_logs(paths):
    """Returns a list of reports: dict(kind_of_report, stacks=[[frames...],[frames...]], text)."""
    reports = []
    for p in paths:
        try:
            txt = open(p, errors="replace").read()
        except OSError:
            continue
        for block in re.split(r"(?m)^={18}$", txt):
            if "WARNING: ThreadSanitizer:" not in block:
                continue
            m = re.search(r"WARNING: ThreadSanitizer: ([^\(\n]+)", block)
            what = m.group(1).strip() if m else "?"
            # split the block into access stacks: paragraphs starting with "  Write of size", "  Previous read of size", "  Read of size", ...
            stacks = []
            cur = None
            for line in block.splitlines():
                if re.match(r"\s+(Previous )?(atomic )?(Write|Read|write|read) of size", line):
                    cur = []
                    stacks.append(cur)
                elif re.match(r"\s+#\d+ ", line) and cur is not None:
                    cur.append(line.strip())
                elif line.strip() == "" or re.match(r"\s+(Location|Thread|Mutex|As if)", line):
                    if line.strip() != "":
                        cur = None
            reports.append({"what": what, "stacks": stacks[:2], "text": block.strip()[:6000]})
    return reports


def frame_fn(frame):
    # "#0 cappuccino::lru_cache<...>::size() const /repo/inc/cappuccino/lru_cache.hpp:206 (race_driver+0x...)"
    m = re.match(r"#\d+ (.*?) (/[^ ]+|<null>)(:\d+)?(:\d+)? \(", frame)
    if not m:
        return frame, ""
    return m.group(1), m.group(2)


def strip_templates(fn):
    out, depth = [], 0
    for ch in fn:
        if ch == "<":
            depth += 1
        elif ch == ">":
            depth = max(0, depth - 1)
        elif depth == 0:
            out.append(ch)
    return "".join(out)


def lib_method(stack, repo_inc):
    """Outermost library frame (the public member the client called) of one access stack."""
    best = None
    for fr in stack:
        fn, path = frame_fn(fr)
        if repo_inc in path or "/inc/cappuccino/" in path:
            best = fn
    if best is None:
        return None
    best = strip_templates(best)
    m = re.search(r"cappuccino::(\w+)::(\w+)", best)
    if m:
        return "%s::%s" % (m.group(1), m.group(2))
    m = re.search(r"cappuccino::(\w+)", best)
    return m.group(0) if m else best


def strip_lines(stack):
    out = []
    for fr in stack:
        fn, path = frame_fn(fr)
        out.append(strip_templates(fn) + "@" + os.path.basename(path))
    return tuple(out)


def run_c07(tier, seed):
    prop = "C07"
    t0 = time.time()
    flavours = ["tsan0"] if tier == "quick" else ["tsan0", "tsan2"]
    reps = 3 if tier == "quick" else 10
    bursts = 6 if tier == "quick" else 40
    ops = 300 if tier == "quick" else 500
    workdir = os.path.join(ck.BUILD_ROOT, "work", "C07-%s-%d-%d" % (tier, seed, os.getpid()))
    os.makedirs(workdir, exist_ok=True)
    repo_inc = os.path.join(ck.REPO, "inc")
    jobs = []
    for fl in flavours:
        binp = ck.build(fl, "race_driver")
        for kind in KINDS:
            for rep in range(reps):
                jobs.append((fl, binp, kind, rep, 4 if rep % 2 == 0 else 8, "all"))
            for rep in range(2 if tier == "quick" else 6):
                jobs.append((fl, binp, kind, 100 + rep, 4 if rep % 2 == 0 else 8, "lookup"))

    def run(job):
        fl, binp, kind, rep, threads, mixname = job
        base = os.path.join(workdir, "%s-%s-%d" % (fl, kind, rep))
        env = dict(os.environ)
        env["TSAN_OPTIONS"] = "halt_on_error=0:exitcode=0:log_path=%s.tsan:history_size=4:report_signal_unsafe=0" % base
        cmd = [binp, "--kind", kind, "--threads", str(threads), "--bursts", str(bursts), "--ops", str(ops),
               "--seed", str(ck.mix_seed(seed, rep)), "--out", base + ".json", "--mix", mixname]
        try:
            r = subprocess.run(cmd, capture_output=True, text=True, env=env, timeout=1800)
        except subprocess.TimeoutExpired:
            return job, "watchdog", None, []
        logs = glob.glob(base + ".tsan.*")
        if r.returncode != 0 or not os.path.exists(base + ".json"):
            return job, "crash", (r.returncode, r.stderr[-3000:]), logs
        return job, "ok", json.load(open(base + ".json")), logs

    per_kind = {}
    reports = []
    crashes = []
    watchdog = 0
    with cf.ThreadPoolExecutor(max(1, ck.NCPU // 4)) as ex:
        for job, status, payload, logs in ex.map(run, jobs):
            fl, _, kind, rep, threads, mixname = job
            for rp in parse_tsan_logs(logs):
                rp["kind"] = kind
                rp["flavour"] = fl
                reports.append(rp)
            if status == "ok":
                pk = per_kind.setdefault(kind, {"ops": 0, "overlapping_call_pairs": 0, "pairs_seen": set(), "pairs_total": payload["pairs_total"], "methods": payload["methods"], "runs": 0})
                pk["ops"] += payload["ops"]
                pk["overlapping_call_pairs"] += payload["overlapping_call_pairs"]
                pk["pairs_seen"].update(payload["pairs_observed"])
                pk["runs"] += 1
            elif status == "crash":
                crashes.append({"kind": kind, "flavour": fl, "rc": payload[0], "stderr": payload[1]})
            else:
                watchdog += 1
    shutil.rmtree(workdir, ignore_errors=True)

    # library-frame filter and de-duplication
    lib_reports = {}
    nolib = 0
    for rp in reports:
        if "data race" not in rp["what"] and "race" not in rp["what"]:
            # lock-order inversions, signal-unsafe calls etc. are not what C07 states
            continue
        ms = [lib_method(s, repo_inc) for s in rp["stacks"]]
        if not any(ms):
            nolib += 1
            continue
        pair = tuple(sorted(m or "(non-library access)" for m in ms))
        key = (rp["kind"], pair)
        ent = lib_reports.setdefault(key, {"count": 0, "stack_pairs": set(), "text": rp["text"], "flavours": set()})
        ent["count"] += 1
        ent["flavours"].add(rp["flavour"])
        ent["stack_pairs"].add(tuple(strip_lines(s) for s in rp["stacks"]))

    mine = []
    for (kind, pair), ent in sorted(lib_reports.items()):
        mine.append({"kind": kind, "tags": ["C07.race"], "cfg": "", "ops": [], "mode": "race", "flavour": "/".join(sorted(ent["flavours"])),
                     "detail": "data race between %s and %s (%d report(s), %d distinct stack pair(s))" % (pair[0], pair[1], ent["count"], len(ent["stack_pairs"])),
                     "journal": "# ThreadSanitizer report (first of its group)\n" + "\n".join("# " + ln for ln in ent["text"].splitlines()) + "\n",
                     "what": "tsan", "stderr": "", "pair": pair})
    for c in crashes:
        if "HARNESS-FAILURE" in c["stderr"]:
            ck.harness_fail("race driver: " + c["stderr"][-1500:])
        mine.append({"kind": c["kind"], "tags": ["C07.crash"], "cfg": "", "ops": [], "mode": "race", "flavour": c["flavour"],
                     "detail": "race driver died (rc %s) - concurrent calls corrupted the container" % c["rc"], "journal": "", "what": "crash", "stderr": c["stderr"]})

    total_ops = sum(p["ops"] for p in per_kind.values())
    pairs_seen = sum(len(p["pairs_seen"]) for p in per_kind.values())
    pairs_total = sum(p["pairs_total"] for p in per_kind.values())
    observer_pairs_missing = []
    for kind, p in per_kind.items():
        for a in p["methods"]:
            for b in ("SIZE", "EMPTY", "CAP", "SETTTL"):
                if b in p["methods"]:
                    k1, k2 = "%s|%s" % (a, b), "%s|%s" % (b, a)
                    if k1 not in p["pairs_seen"] and k2 not in p["pairs_seen"]:
                        observer_pairs_missing.append("%s:%s" % (kind, k1))
    coverage = {
        "evaluations": sum(p["runs"] for p in per_kind.values()),
        "distinct_nontrivial": pairs_seen,
        "rule": "one evaluation = one run of the race driver (4 or 8 free-running threads, every public member of one shared thread_safe::yes container, "
                "no harness synchronisation inside a burst) under ThreadSanitizer; non-trivial/distinct = distinct (container, method pair) observed in flight "
                "together, computed from per-thread rdtsc logs after join; a data-race report counts only if one of its stacks has a frame under /repo/inc",
        "samples": [{"container": k, "methods": p["methods"], "method_pairs_observed_in_flight_together": sorted(p["pairs_seen"])[:40]} for k, p in list(per_kind.items())[:2]],
        "calls_executed": total_ops,
        "overlapping_call_pairs_observed": sum(p["overlapping_call_pairs"] for p in per_kind.values()),
        "method_pairs_seen": pairs_seen,
        "method_pairs_total": pairs_total,
        "per_container": {k: {"calls": p["ops"], "pairs_seen": len(p["pairs_seen"]), "pairs_total": p["pairs_total"]} for k, p in per_kind.items()},
        "observer_pairs_not_seen": observer_pairs_missing[:50],
        "flavours": flavours,
        "tsan_reports_total": len(reports),
        "tsan_reports_without_library_frame": nolib,
        "deduplicated_library_races": [{"container": k, "methods": list(pair), "reports": e["count"], "distinct_stack_pairs": len(e["stack_pairs"])} for (k, pair), e in sorted(lib_reports.items())],
        "watchdog_fired": watchdog,
        "exhaustive": False,
    }
    assumptions = [
        "ThreadSanitizer sees only executed code and keeps a bounded access history per location; races on paths the mix never drives stay invisible (see the method-pair matrix)",
        "the driver adds no synchronisation between worker threads inside a burst (per-thread PRNG and logs, relaxed virtual clock, idle lock hooks)",
        "-O0 is needed to see std::list::size() vs splice (folded by the optimiser otherwise); thorough adds -O2",
    ]
    failed = None
    if nolib:
        failed = "%d ThreadSanitizer report(s) without a library frame: the harness itself races" % nolib
    elif total_ops == 0:
        failed = "race driver executed nothing"
    elif pairs_total and pairs_seen * 100 < pairs_total * 50 and not mine:
        # fewer than half of the method pairs ever overlapped: the run says nothing about most of the property
        failed = "only %d of %d method pairs were observed in flight together" % (pairs_seen, pairs_total)
    elif (pairs_seen * 100 < pairs_total * 90 or observer_pairs_missing) and not mine:
        # thinner coverage than usual (slow or heavily loaded machine): not a verdict and not a failure, but said out loud
        print("INCONCLUSIVE-COVERAGE: %d of %d method pairs in flight together; observer/update_ttl pairs never seen together: %s" % (
            pairs_seen, pairs_total, ", ".join(observer_pairs_missing[:8]) or "none"))
    if watchdog and not mine:
        print("INCONCLUSIVE: %d race-driver run(s) hit the wall-clock watchdog" % watchdog)

    # keys for known-findings matching: container.C07.race.<methodA>+<methodB>
    ck.finish_keyed(prop, tier, seed, t0, mine, coverage, assumptions, failed,
                    keyfn=lambda v: "%s.C07.race.%s" % (v["kind"], "+".join(v.get("pair", ("crash",)))))


def run(prop, tier, seed):
    if prop == "C07":
        run_c07(tier, seed)
    else:
        import lin_checks
        lin_checks.run_c06(tier, seed)
